"""R14 ZONE-PAIR, R15 LEX-NORM, R32 ORDER-AGREE (C02, C04, C06, C19, C20)."""
import ast

from ..model import clone,  npos, AnalysisError, U, walk_no_nested, parent, ancestors

KEY_GETTERS = ("get_calendar_date", "get_ordinal_date", "get_week_date",
               "get_second_of_day", "get_hour_minute_second")


def call_chain(expr):
    """x.a(..).b(..) -> (base expr, [(name, call node), ...]) innermost
    first."""
    chain = []
    e = expr
    while isinstance(e, ast.Call) and isinstance(e.func, ast.Attribute):
        chain.append((e.func.attr, e))
        e = e.func.value
    return e, chain[::-1]


def defs_before(f, name, node):
    """Assignments to local ``name`` that can reach ``node``: assignments
    that precede it in source order and whose block encloses or precedes the
    node (straight-line approximation; branches that end in return are
    excluded)."""
    out = []
    anc = set(id(a) for a in ancestors(node))
    for n in walk_no_nested(f.node):
        if isinstance(n, ast.Assign) and any(
                isinstance(t, ast.Name) and t.id == name for t in n.targets):
            if npos(n) >= npos(node):
                continue
            if id(n) in anc:
                continue      # the use is inside this very assignment
            # the assignment's enclosing blocks must be ancestors of the use,
            # or the assignment is in a sibling branch that falls through
            ok = True
            for a in ancestors(n):
                if a is f.node:
                    break
                if id(a) not in anc and isinstance(a, (ast.If, ast.For,
                                                       ast.While, ast.Try)):
                    # sibling block: reaches only if it does not leave
                    last = a.body[-1] if a.body else None
                    if isinstance(last, (ast.Return, ast.Raise)):
                        ok = False
            if ok:
                out.append(n)
    if not out:
        return []
    # the latest unconditional def kills earlier ones
    out.sort(key=npos)
    res = []
    for n in out[::-1]:
        res.append(n)
        uncond = all(id(a) in anc or a is f.node for a in ancestors(n)
                     if isinstance(a, (ast.If, ast.For, ast.While, ast.Try,
                                       ast.FunctionDef)))
        if uncond:
            break
    return res


def derivation(f, expr, depth=0):
    """Follow a value back through local assignments: returns
    (root name, [method names applied, innermost first], [call nodes])."""
    base, chain = call_chain(expr)
    names = [n for n, _ in chain]
    calls = [c for _, c in chain]
    if isinstance(base, ast.Name) and depth < 6:
        if base.id in f.params:
            ds = defs_before(f, base.id, expr)
            if not ds:
                return base.id, names, calls
            # a parameter re-bound only under a condition: the argument
            # itself reaches the use as well
            anc = set(id(a) for a in ancestors(expr))
            if not any(all(id(a) in anc or a is f.node for a in ancestors(d)
                           if isinstance(a, (ast.If, ast.For, ast.While,
                                             ast.Try, ast.FunctionDef)))
                       for d in ds):
                return "<multiple:%s>" % base.id, names, calls
        else:
            ds = defs_before(f, base.id, expr)
        if len(ds) == 1:
            r, n2, c2 = derivation(f, ds[0].value, depth + 1)
            return r, n2 + names, c2 + calls
        if len(ds) > 1:
            return "<multiple:%s>" % base.id, names, calls
        return base.id, names, calls
    return U(base), names, calls


def receiver_sources(f, name_node, depth=0):
    """A name bound by a for loop / comprehension over a literal collection
    of names (directly, through a local holding that literal, or through
    zip()) stands for each of those names: -> the Name nodes it may denote
    ([name_node] itself when it is an ordinary local)."""
    if depth > 3 or not isinstance(name_node, ast.Name):
        return [name_node]
    nm = name_node.id

    def literal_names(it, index=None):
        if isinstance(it, ast.Name):
            ds = [n for n in walk_no_nested(f.node)
                  if isinstance(n, ast.Assign) and len(n.targets) == 1 and
                  isinstance(n.targets[0], ast.Name) and
                  n.targets[0].id == it.id]
            if len(ds) == 1:
                return literal_names(ds[0].value, index)
            return None
        if isinstance(it, (ast.Tuple, ast.List)) and it.elts and all(
                isinstance(e, ast.Name) for e in it.elts):
            return list(it.elts)
        return None

    for n in ast.walk(f.node):
        gens = []
        if isinstance(n, ast.For):
            gens = [(n.target, n.iter)]
        for g in getattr(n, "generators", ()):
            gens.append((g.target, g.iter))
        for target, it in gens:
            # which position of the target is our name?
            if isinstance(target, ast.Name) and target.id == nm:
                srcs = literal_names(it)
                if srcs:
                    return [x for s_ in srcs
                            for x in receiver_sources(f, s_, depth + 1)]
            elif isinstance(target, (ast.Tuple, ast.List)):
                for i, e in enumerate(target.elts):
                    if isinstance(e, ast.Name) and e.id == nm and \
                            isinstance(it, ast.Call) and U(it.func) == "zip" \
                            and i < len(it.args):
                        srcs = literal_names(it.args[i])
                        if srcs:
                            return [x for s_ in srcs for x in
                                    receiver_sources(f, s_, depth + 1)]
    return [name_node]


# ------------------------------------------------------------------- R15
def canonical_methods(ctx):
    """TimePoint methods all of whose returns are 24:00-free: `self` only
    under a test that the hour differs from HOURS_IN_DAY; otherwise a fresh
    copy on which the normaliser ran last."""
    tp = ctx.model.cls("TimePoint")
    out = {}
    for name, f in tp.methods.items():
        if f.is_property or not f.self_name:
            continue
        rets = [n for n in walk_no_nested(f.node) if isinstance(n, ast.Return)]
        if not rets or "TimePoint" not in ctx.res.ret_types.get(f.qual, ()):
            continue
        good = True
        kinds = set()
        for r in rets:
            v = r.value
            if isinstance(v, ast.Name) and v.id == f.self_name:
                p = parent(r)
                ok = False
                if isinstance(p, ast.If) and any(r is b for b in p.body):
                    tests = p.test.values if isinstance(
                        p.test, ast.BoolOp) and isinstance(
                            p.test.op, ast.Or) else [p.test]
                    for t in tests:
                        if isinstance(t, ast.Compare) and len(t.ops) == 1 \
                                and isinstance(t.ops[0], ast.NotEq) and \
                                U(t.left) == "%s._hour_of_day" % f.self_name \
                                and "HOURS_IN_DAY" in U(t.comparators[0]):
                            ok = True
                if not ok:
                    good = False
                kinds.add("self-if-not-24")
            elif isinstance(v, ast.Name):
                # fresh copy + normaliser as the last effect before return
                seq = None
                p = parent(r)
                for field in ("body", "orelse"):
                    s_ = getattr(p, field, None)
                    if isinstance(s_, list) and any(r is b for b in s_):
                        seq = s_
                if seq is None:
                    good = False
                    continue
                idx = [i for i, b in enumerate(seq) if b is r][0]
                prev = seq[idx - 1] if idx > 0 else None
                is_tick = (isinstance(prev, ast.Expr) and isinstance(
                    prev.value, ast.Call) and U(prev.value.func) ==
                    v.id + "._tick_over")
                ds = defs_before(f, v.id, r)
                fresh = len(ds) == 1 and U(ds[0].value) == \
                    f.self_name + "._copy()"
                if not (is_tick and fresh):
                    good = False
                kinds.add("ticked-copy")
            else:
                good = False
        if good and "ticked-copy" in kinds:
            out[f.qual] = f
    return out


def r15_lex_norm(ctx):
    rep = ctx.rep
    rule = "R15.lex-norm"
    tp = ctx.model.cls("TimePoint")
    canon = canonical_methods(ctx)
    canon_names = {f.name for f in canon.values()}
    rep.need_anchor(rule, "lexicographic keys")
    # does the constructor admit hour == HOURS_IN_DAY? (read off
    # _check_bounds: inclusive upper bound)
    cb = tp.methods["_check_bounds"]
    admits24 = any(
        isinstance(n, ast.Call) and U(n.func) == "_bounds_checker" and
        n.args and U(n.args[0]).endswith("_hour_of_day") and any(
            k.arg == "max_val" and "HOURS_IN_DAY" in U(k.value)
            for k in n.keywords) for n in walk_no_nested(cb.node))
    if not admits24:
        rep.ok(rule, ctx.fkey(cb, None, "no-24"), cb.loc(),
               "the constructor no longer admits hour 24: every value is "
               "canonical", ("C02", "C04"))
        rep.anchor(rule, "lexicographic keys")
        return
    for fname, props in (("_cmp", ("C02",)), ("__hash__", ("C02", "C06")),
                         ("__sub__", ("C04", "C02"))):
        f = tp.methods.get(fname)
        if f is None:
            raise AnalysisError("TimePoint.%s not found" % fname)
        sinks = []
        for n in walk_no_nested(f.node):
            if isinstance(n, ast.Call) and isinstance(
                    n.func, ast.Attribute) and n.func.attr in KEY_GETTERS \
                    and isinstance(n.func.value, ast.Name):
                sinks.append(n)
        if not sinks:
            rep.error("R15", "%s: no lexicographic key / field difference "
                      "found - re-confirm by reading" % f.qual)
            continue
        done = set()
        expanded = []
        for s_ in sinks:
            for src in receiver_sources(f, s_.func.value):
                expanded.append((s_, src))
        for s_, src in expanded:
            var = src.id
            root, meths, calls = derivation(f, src)
            k = (var, root, tuple(meths))
            if k in done:
                continue
            done.add(k)
            rep.anchor(rule, "lexicographic keys")
            last = meths[-1] if meths else None
            ok = last in canon_names
            key = ctx.fkey(f, None, "operand:%s<-%s" % (var, root))
            rep.check(
                ok, rule, key, f.loc(s_),
                "%s (from %s via %s) is 24:00-free when its date/time "
                "fields are read" % (var, root, ".".join(meths) or "-"),
                "%s reads the date/time fields of `%s` (from %s%s) to "
                "build a lexicographic key / field-wise difference, but the "
                "value may hold hour 24 (the constructor admits 24:00): "
                "…T24:00 and next-day T00:00 then compare unequal, hash "
                "differently and differ by hours=24" % (
                    f.qual, var, root,
                    " via " + ".".join(meths) if meths else ""), props)
    rep.ok(rule, "data.py:TimePoint:canonicalisers", "-",
           "24:00-normalising methods recognised: %s" % sorted(canon_names),
           ("C02", "C04"))


# ------------------------------------------------------------------- R14
def r14_zone_pair(ctx):
    rep = ctx.rep
    tp = ctx.model.cls("TimePoint")
    P6 = ("C06",)
    # (a) to_time_zone -------------------------------------------------------
    rule = "R14.convert"
    rep.need_anchor(rule, "converting paths")
    f = tp.methods.get("to_time_zone")
    if f is None:
        raise AnalysisError("TimePoint.to_time_zone not found")
    dest = f.call_params[0]
    selfn = f.self_name
    for r in [n for n in walk_no_nested(f.node) if isinstance(n, ast.Return)]:
        rep.anchor(rule, "converting paths")
        key = ctx.fkey(f, r, "path")
        v = r.value
        if isinstance(v, ast.Name) and v.id == selfn:
            from ..flow import path_conds
            ok = any(pol and U(t) in ("%s._unknown" % dest,
                                      "%s.unknown" % dest)
                     for t, pol in path_conds(r))
            rep.check(ok, rule, key, f.loc(r),
                      "receiver returned unchanged only for an unknown "
                      "destination zone",
                      "to_time_zone returns the receiver unconverted outside "
                      "the `%s._unknown` guard" % dest, P6)
            continue
        if not isinstance(v, ast.Name):
            rep.error("R14", "%s: return shape %s not recognised" % (
                f.loc(r), U(v)))
            continue
        ds = defs_before(f, v.id, r)
        # a plain copy is the shift by nothing: admitted on a path that has
        # found the two offsets equal, hours and minutes
        from ..flow import path_conds as _pc14

        from ..flow import single_def as _sd14

        def res(e_):
            """text of e_ with a local that only renames an attribute of
            self (`src = self._time_zone`) replaced by what it names"""
            class R_(ast.NodeTransformer):
                def visit_Name(s_, n_):
                    v_ = _sd14(f.node, n_.id)
                    if isinstance(v_, ast.Attribute) and U(v_).startswith(
                            selfn + "."):
                        return clone(v_)
                    return n_
            return U(R_().visit(clone(e_)))

        def same_offset_copy(d_):
            if U(d_.value) != "%s._copy()" % selfn:
                return False
            eqs = set()
            todo = list(_pc14(d_))
            while todo:
                t_, pol_ = todo.pop()
                if isinstance(t_, ast.BoolOp) and isinstance(
                        t_.op, ast.And) and pol_:
                    todo += [(x_, True) for x_ in t_.values]
                elif pol_ and isinstance(t_, ast.Compare) and len(
                        t_.ops) == 1 and isinstance(t_.ops[0], ast.Eq):
                    eqs.add(frozenset((res(t_.left),
                                       res(t_.comparators[0]))))
            return all(frozenset(("%s.%s" % (dest, a_),
                                  "%s._time_zone.%s" % (selfn, a_))) in eqs
                       for a_ in ("_hours", "_minutes"))
        copies = [d_ for d_ in ds if same_offset_copy(d_)]
        if copies and len(ds) - len(copies) == 1:
            ds = [d_ for d_ in ds if d_ not in copies]
        shift_ok, orient, why = False, None, "no shifting assignment"
        if len(ds) == 1 and isinstance(ds[0].value, ast.BinOp) and \
                isinstance(ds[0].value.op, ast.Add):
            b = ds[0].value
            recv, delta = b.left, b.right
            if U(recv) != selfn and U(delta) == selfn:
                recv, delta = delta, recv
            if U(recv) == selfn and isinstance(delta, ast.BinOp) and \
                    isinstance(delta.op, ast.Sub):
                orient = (res(delta.left), res(delta.right))
                shift_ok = orient == (dest, "%s._time_zone" % selfn)
                why = "shift is %s - %s" % orient
        rep.check(shift_ok, rule, key + ":shift", f.loc(r),
                  "fields are shifted by (destination - own offset)",
                  "to_time_zone: %s; expected self + (%s - self._time_zone)"
                  % (why, dest), P6)
        # zone slot assigned the destination between the shift and return
        zone_sets = [n for n in walk_no_nested(f.node)
                     if isinstance(n, ast.Assign) and any(
                         U(t) == "%s._time_zone" % v.id for t in n.targets)]
        zok = len(zone_sets) >= 1 and all(U(n.value) in (
            dest, dest + "._copy()") for n in zone_sets) and all(
                ds and npos(ds[0]) < npos(n) < npos(r) for n in zone_sets)
        rep.check(zok, rule, key + ":zone-slot", f.loc(r),
                  "the result's zone slot is set to the requested zone",
                  "to_time_zone returns `%s` without storing the requested "
                  "zone in its _time_zone slot (%s): the fields are shifted "
                  "but the offset label is not" % (
                      v.id, [U(n) for n in zone_sets] or "no store"), P6)
    # sibling orientation: get_time_zone_offset(other) = other - self
    g = tp.methods.get("get_time_zone_offset")
    if g is not None:
        subs = [n.value for n in walk_no_nested(g.node)
                if isinstance(n, ast.Return) and isinstance(
                    n.value, ast.BinOp) and isinstance(n.value.op, ast.Sub)]
        oth = g.call_params[0]
        ok = bool(subs) and all(
            U(s.left) == "%s._time_zone" % oth and
            U(s.right) == "%s._time_zone" % g.self_name for s in subs)
        rep.check(ok, rule, ctx.fkey(g, None, "orientation"), g.loc(),
                  "offset to another point is (other zone - own zone), the "
                  "same orientation to_time_zone uses",
                  "get_time_zone_offset returns %s; the sibling to_time_zone "
                  "uses (destination - own)" % [U(s) for s in subs], P6)
    # (d) to_utc / to_local_time_zone
    f = tp.methods.get("to_utc")
    if f is not None:
        rep.anchor(rule, "converting paths")
        ok = False
        for n in walk_no_nested(f.node):
            if isinstance(n, ast.Return) and isinstance(n.value, ast.Call) \
                    and U(n.value.func) == "%s.to_time_zone" % f.self_name \
                    and n.value.args and isinstance(
                        n.value.args[0], ast.Call):
                z = n.value.args[0]
                kw = {k.arg: U(k.value) for k in z.keywords}
                pos = [U(a) for a in z.args]
                ok = U(z.func) == "TimeZone" and (
                    (kw.get("hours", "0") == "0" and
                     kw.get("minutes", "0") == "0" and not pos) or
                    pos in (["0", "0"], ["0"], []))
        rep.check(ok, rule, ctx.fkey(f, None, "zero-zone"), f.loc(),
                  "to_utc converts to TimeZone(0, 0)",
                  "to_utc does not convert to the zero offset", P6)
    f = tp.methods.get("to_local_time_zone")
    if f is not None:
        rep.anchor(rule, "converting paths")
        ok = False
        names = None
        for n in walk_no_nested(f.node):
            if isinstance(n, ast.Assign) and isinstance(
                    n.targets[0], ast.Tuple) and isinstance(
                        n.value, ast.Call) and U(n.value.func).endswith(
                            "get_local_time_zone"):
                names = [U(e) for e in n.targets[0].elts]
        for n in walk_no_nested(f.node):
            if isinstance(n, ast.Call) and U(n.func) == "TimeZone" and names:
                kw = {k.arg: U(k.value) for k in n.keywords}
                pos = [U(a) for a in n.args]
                ok = (kw.get("hours") == names[0] and
                      kw.get("minutes") == names[1]) or pos == names
        rep.check(ok, rule, ctx.fkey(f, None, "local-pair"), f.loc(),
                  "(hours, minutes) of get_local_time_zone() reach "
                  "TimeZone(hours=, minutes=) in order",
                  "to_local_time_zone does not pass the (hours, minutes) "
                  "pair of get_local_time_zone() to TimeZone in order",
                  P6 + ("C18",))
    # (b) convert-before-read -------------------------------------------------
    rule = "R14.convert-before-read"
    rep.need_anchor(rule, "re-zoned operands")
    for fname, props in (("_cmp", ("C02",)), ("__sub__", ("C04",)),
                         ("__hash__", ("C02", "C06"))):
        f = tp.methods[fname]
        selfn = f.self_name
        done = set()
        for n in walk_no_nested(f.node):
            if not (isinstance(n, ast.Call) and isinstance(
                    n.func, ast.Attribute) and n.func.attr in KEY_GETTERS
                    and isinstance(n.func.value, ast.Name)):
                continue
            for src in receiver_sources(f, n.func.value):
                var = src.id
                root, meths, calls = derivation(f, src)
                if (var, root) in done:
                    continue
                done.add((var, root))
                key = ctx.fkey(f, None, "rezoned:%s<-%s" % (var, root))
                if fname == "__hash__":
                    rep.anchor(rule, "re-zoned operands")
                    rep.check("to_utc" in meths, rule, key, f.loc(n),
                              "hash key is read from the UTC form",
                              "__hash__ reads date/time fields of `%s` (from %s "
                              "via %s) without converting to UTC first: equal "
                              "instants in different offsets hash differently" %
                              (var, root, ".".join(meths) or "-"), props)
                    continue
                if root == selfn:
                    continue
                rep.anchor(rule, "re-zoned operands")
                conv = [c for m, c in zip(meths, calls) if m == "to_time_zone"]
                ok = bool(conv) and all(
                    c.args and U(c.args[0]) == "%s._time_zone" % selfn
                    for c in conv)
                rep.check(ok, rule, key, f.loc(n),
                          "the other operand is re-expressed in the receiver's "
                          "zone before its fields are read",
                          "%s reads date/time fields of `%s` (from %s via %s) "
                          "without first converting it to self._time_zone: "
                          "fields of different offsets are compared/subtracted" %
                          (f.qual, var, root, ".".join(meths) or "-"), props)
    # dumper: conversion to the literal zone precedes the property reads
    df = ctx.try_func("dumpers.TimePointDumper._dump_expression_with_properties")
    if df is not None:
        rep.anchor(rule, "re-zoned operands")
        tpn = df.call_params[0]
        conv_idx, read_idx = None, None
        conv_if = None
        for i, st in enumerate(df.node.body):
            # the top-level statement under which the point is re-zoned
            # (assigned from its own to_utc() / to_time_zone()), whatever
            # shape its test on the custom zone has
            if isinstance(st, ast.If) and "custom_time_zone" in U(st.test) \
                    and conv_idx is None and any(
                        isinstance(x, ast.Assign) and U(
                            x.targets[0]) == tpn and isinstance(
                                x.value, ast.Call) and isinstance(
                                    x.value.func, ast.Attribute) and
                        x.value.func.attr in ("to_utc", "to_time_zone") and
                        U(x.value.func.value) == tpn
                        for x in ast.walk(st)):
                conv_idx, conv_if = i, st
            for n in ast.walk(st):
                if isinstance(n, ast.Call) and U(n.func) == "getattr" and \
                        n.args and U(n.args[0]) == tpn and read_idx is None:
                    read_idx = i
        ok = conv_idx is not None and read_idx is not None and \
            conv_idx < read_idx
        rep.check(ok, rule, ctx.fkey(df, None, "convert-then-format"),
                  df.loc(),
                  "the time point is converted to the format's literal zone "
                  "before any property is read",
                  "the dumper reads properties (statement %s) before/without "
                  "converting to the literal zone of the format (statement "
                  "%s)" % (read_idx, conv_idx), P6 + ("C08",))
        # nothing else may look at the point before the last conversion
        ALLOWED = {"truncated", "get_is_week_date", "get_is_calendar_date",
                   "get_is_ordinal_date", "to_week_date", "to_calendar_date",
                   "to_ordinal_date", "to_utc", "to_time_zone"}
        rebind_idx = [i for i, st in enumerate(df.node.body) if any(
            isinstance(n, ast.Assign) and any(U(t) == tpn for t in n.targets)
            for n in ast.walk(st))]
        early = []
        if rebind_idx:
            last_conv = max(rebind_idx)
            for i, st in enumerate(df.node.body[:last_conv + 1]):
                for n in ast.walk(st):
                    if isinstance(n, ast.Name) and n.id == tpn and \
                            isinstance(n.ctx, ast.Load):
                        p_ = parent(n)
                        if isinstance(p_, ast.Attribute) and \
                                p_.attr in ALLOWED:
                            continue
                        early.append(n)
        rep.check(not early, rule, ctx.fkey(df, None, "no-early-use"),
                  df.loc(early[0]) if early else df.loc(),
                  "before the last representation/zone conversion the point "
                  "is only tested and converted",
                  "the dumper uses the time point (%s) before its last "
                  "representation/zone conversion: values such as the year "
                  "are then taken from the unconverted point (a year bounds "
                  "check on it misses a year that the conversion rolls over)"
                  % sorted({U(parent(n))[:50] for n in early}),
                  P6 + ("C08",))
        if conv_if is not None:
            rebinds = [n for n in ast.walk(conv_if)
                       if isinstance(n, ast.Assign) and
                       U(n.targets[0]) == tpn]
            good = len(rebinds) >= 1 and all(
                isinstance(n.value, ast.Call) and U(n.value.func) in (
                    tpn + ".to_utc", tpn + ".to_time_zone")
                for n in rebinds)
            pair_ok = True
            for n in ast.walk(conv_if):
                if isinstance(n, ast.Call) and U(n.func) == "TimeZone":
                    kw = {k.arg: U(k.value) for k in n.keywords}
                    pair_ok = kw.get("hours") == "custom_time_zone[0]" and \
                        kw.get("minutes") == "custom_time_zone[1]"
            rep.check(good and pair_ok, rule,
                      ctx.fkey(df, None, "literal-zone-branches"), df.loc(),
                      "every literal-zone branch rebinds the point to its "
                      "converted form, (hours, minutes) in order",
                      "a literal-zone branch of the dumper does not convert "
                      "the point (or swaps the pair): %s" % [
                          U(n) for n in rebinds], P6 + ("C08",))
    ef = ctx.try_func("dumpers.TimePointDumper._get_expression_and_properties")
    if ef is not None:
        rep.anchor(rule, "re-zoned operands")
        # decision table of the function: under which conditions on the
        # time part of the format which custom zone is returned
        from ..dtable import explore
        paths = [p for p in explore(ef.node.body) if p.outcome == "return"
                 and isinstance(p.value, ast.Tuple)
                 and len(p.value.elts) == 3]
        if not paths:
            rep.error("R14", "_get_expression_and_properties: no path "
                      "returning (expression, properties, custom zone)")

        def atom(p, *needles):
            """decision of the atom whose text contains all needles"""
            for k, v in p.decisions.items():
                if all(n_ in k for n_ in needles):
                    return v
            return None
        problems = []
        unread = []
        seen_kinds = set()
        for p in paths:
            cz = U(p.value.elts[2])
            z = atom(p, ".endswith('Z')")
            hh = atom(p, "'+hh' in ")
            plus = atom(p, "'+' in ")
            minus = atom(p, "'-' in ")
            if z:
                seen_kinds.add("Z")
                if cz != "(0, 0)":
                    problems.append("a format ending in Z yields %s" % cz)
                continue
            if cz == "(0, 0)":
                problems.append("(0, 0) is returned without a trailing Z")
                continue
            if "get_time_zone(" in cz:
                sign = "+" if "get_time_zone('+' +" in cz else (
                    "-" if "get_time_zone('-' +" in cz else None)
                seen_kinds.add(sign)
                if hh:
                    problems.append("the +hh placeholder yields %s" %
                                    cz[:50])
                if sign == "+" and not plus:
                    problems.append("a '+' zone is parsed on a path without "
                                    "'+' in the format")
                if sign == "-" and (plus or not minus):
                    problems.append("a '-' zone is parsed on a path where "
                                    "the format %s" % (
                                        "contains '+'" if plus else
                                        "has no '-'"))
                if sign is None:
                    unread.append(cz[:60])
                continue
            if cz != "None":
                problems.append("custom zone is %s" % cz[:50])
                continue
            # no custom zone: only without a literal zone in the format
            if hh is not True and (plus or (minus and plus is not True)):
                problems.append("a literal %s zone in the format yields no "
                                "custom zone" % ("+" if plus else "-"))
        if not {"Z", "+", "-"} <= seen_kinds and not unread:
            problems.append("literal zone kinds handled: %s" %
                            sorted(k for k in seen_kinds if k))
        if unread and not problems:
            rep.undecided(rule, ctx.fkey(ef, None, "zone-branches"),
                          ef.loc(), "the sign of the literal zone is a "
                          "computed value (%s): which formats yield a custom "
                          "zone is not read by this rule" % unread[0],
                          P6 + ("C08",))
        else:
          rep.check(not problems, rule, ctx.fkey(ef, None, "zone-branches"),
                  ef.loc(),
                  "over %d paths: Z / +... / -... formats yield a custom "
                  "zone, the +hh placeholder and zone-less formats yield "
                  "none" % len(paths),
                  "custom-zone extraction: %s (a literal zone must produce a "
                  "custom zone, the `+hh` placeholder must not)" %
                  sorted(set(problems)), P6 + ("C08",))
    # (c) truncated addition: search in the truncated operand's zone, result
    # back in the full operand's zone
    rule = "R14.truncated-zone"
    rep.need_anchor(rule, "truncated returns")
    f = tp.methods["__add__"]
    selfn = f.self_name
    oth = f.call_params[0]
    found = False
    for n in walk_no_nested(f.node):
        if isinstance(n, ast.Return) and isinstance(n.value, ast.Call) or (
                isinstance(n, ast.Return) and isinstance(n.value, ast.Name)):
            root, meths, calls = derivation(f, n.value)
            if "add_truncated" not in meths:
                continue
            found = True
            rep.anchor(rule, "truncated returns")
            i = meths.index("add_truncated")
            before = [(m, c) for m, c in zip(meths[:i], calls[:i])]
            after = [(m, c) for m, c in zip(meths[i + 1:], calls[i + 1:])]
            ok_in = any(m == "to_time_zone" and c.args and
                        U(c.args[0]) == "%s._time_zone" % selfn
                        for m, c in before) and root == oth
            ok_out = bool(after) and after[-1][0] == "to_time_zone" and \
                after[-1][1].args and \
                U(after[-1][1].args[0]) == "%s._time_zone" % oth
            rep.check(ok_in, rule, ctx.fkey(f, None, "search-zone"),
                      f.loc(n), "the search runs on the full operand "
                      "re-expressed in the truncated operand's zone",
                      "truncated addition searches on %s via %s: the full "
                      "operand must first be converted to the truncated "
                      "operand's zone (self._time_zone)" % (
                          root, ".".join(meths[:i]) or "-"), ("C20",))
            rep.check(ok_out, rule, ctx.fkey(f, None, "result-zone"),
                      f.loc(n), "the result is converted back to the full "
                      "operand's zone",
                      "truncated addition returns %s: the result is not "
                      "converted back to the full operand's zone "
                      "(%s._time_zone)" % (U(n.value), oth), ("C20",))
    if not found:
        rep.error("R14", "TimePoint.__add__: truncated branch (add_truncated) "
                  "not found")
    # commuted form delegates
    deleg = any(isinstance(n, ast.Return) and isinstance(n.value, ast.BinOp)
                and U(n.value.left) == oth and U(n.value.right) == selfn
                for n in walk_no_nested(f.node))
    rep.check(deleg, rule, ctx.fkey(f, None, "commuted"), f.loc(),
              "full + truncated delegates to truncated + full",
              "TimePoint.__add__ no longer delegates `full + truncated` to "
              "`other + self`", ("C20",))


# ------------------------------------------------------------------- R32
def r32_order_agree(ctx):
    rep = ctx.rep
    rule = "R32.order"
    rep.need_anchor(rule, "ordered subtractions")
    # DateTimeOperator.date_diff
    f = ctx.try_func("datetimeoper.DateTimeOperator.date_diff")
    if f is not None:
        rep.anchor(rule, "ordered subtractions")
        a, b = f.params[0], f.params[1]
        ifs = [n for n in f.node.body if isinstance(n, ast.If)]
        ok, why = False, "shape not recognised"
        if ifs and isinstance(ifs[0].test, ast.Compare) and len(
                ifs[0].test.ops) == 1:
            t = ifs[0].test
            l, r_, op = U(t.left), U(t.comparators[0]), type(t.ops[0])
            if op in (ast.Gt, ast.GtE):
                l, r_ = r_, l          # now l < r_
                op = ast.Lt
            if op in (ast.Lt, ast.LtE) and {l, r_} == {a, b}:
                tr = [x for x in ifs[0].body if isinstance(x, ast.Return)]
                fr = [x for x in ifs[0].orelse if isinstance(x, ast.Return)]
                if not fr:
                    idx = f.node.body.index(ifs[0])
                    fr = [x for x in f.node.body[idx + 1:]
                          if isinstance(x, ast.Return)]
                if tr and fr and isinstance(tr[0].value, ast.Tuple) and \
                        isinstance(fr[0].value, ast.Tuple):
                    ts, tsign = tr[0].value.elts[0], U(tr[0].value.elts[1])
                    fs, fsign = fr[0].value.elts[0], U(fr[0].value.elts[1])
                    ok = (isinstance(ts, ast.BinOp) and isinstance(
                        ts.op, ast.Sub) and U(ts.left) == r_ and
                        U(ts.right) == l and isinstance(fs, ast.BinOp) and
                        U(fs.left) == l and U(fs.right) == r_)
                    # "-" exactly when the second point is before the first
                    neg_branch_is_true = (l == b)
                    ok = ok and (tsign == "'-'") == neg_branch_is_true and \
                        (fsign == "'-'") == (not neg_branch_is_true) and \
                        {tsign, fsign} == {"'-'", "''"}
                    why = "true branch %s sign %s, else %s sign %s" % (
                        U(ts), tsign, U(fs), fsign)
        rep.check(ok, rule, ctx.fkey(f, None, "larger-minus-smaller"),
                  f.loc(), "date_diff subtracts the earlier point from the "
                  "later and prints '-' exactly when the second point "
                  "precedes the first",
                  "date_diff: %s; the printed sign and the operand order of "
                  "the difference disagree" % why, ("C19",))
    # TimePoint.__sub__
    tp = ctx.model.cls("TimePoint")
    f = tp.methods["__sub__"]
    selfn, oth = f.self_name, f.call_params[0]
    rep.anchor(rule, "ordered subtractions")
    ok, why = False, "no `if other > self: return -1 * (other - self)`"
    for n in walk_no_nested(f.node):
        if isinstance(n, ast.If) and isinstance(n.test, ast.Compare) and \
                len(n.test.ops) == 1 and n.body and isinstance(
                    n.body[0], ast.Return):
            t = n.test
            l, r_, op = U(t.left), U(t.comparators[0]), type(t.ops[0])
            if op is ast.Lt:
                l, r_, op = r_, l, ast.Gt
            if op is ast.Gt and (l, r_) == (oth, selfn):
                v = n.body[0].value
                txt = U(v).replace(" ", "")
                ok = txt in ("-1*(%s-%s)" % (oth, selfn),
                             "(%s-%s)*-1" % (oth, selfn),
                             "-(%s-%s)" % (oth, selfn))
                why = "returns %s" % U(v)
    rep.check(ok, rule, ctx.fkey(f, None, "negated-mirror"), f.loc(),
              "a - b with b later is -(b - a): one sign throughout",
              "TimePoint.__sub__: %s; under `other > self` the result must "
              "be the negation of (other - self)" % why, ("C04",))
    # field differences are (mine - other)
    origin = {}        # local -> "self" / "other"
    for n in walk_no_nested(f.node):
        if isinstance(n, ast.Assign) and isinstance(
                n.targets[0], ast.Tuple) and isinstance(n.value, ast.Call) \
                and isinstance(n.value.func, ast.Attribute) and \
                n.value.func.attr in KEY_GETTERS:
            root, meths, calls = derivation(f, n.value.func.value)
            for e in n.targets[0].elts:
                if isinstance(e, ast.Name):
                    origin[e.id] = root
    diffs = [n for n in walk_no_nested(f.node) if isinstance(n, ast.Assign)
             and isinstance(n.value, ast.BinOp) and isinstance(
                 n.value.op, ast.Sub) and U(n.value.left) in origin and
             U(n.value.right) in origin]
    if diffs:
        rep.anchor(rule, "ordered subtractions")
        bad = [U(n) for n in diffs if not (
            origin[U(n.value.left)] == selfn and
            origin[U(n.value.right)] == oth)]
        rep.check(not bad, rule, ctx.fkey(f, None, "mine-minus-other"),
                  f.loc(diffs[0]),
                  "every field difference is (field of self) - (field of "
                  "other): %d differences" % len(diffs),
                  "TimePoint.__sub__ computes %s: after the `other > self` "
                  "case was handled the remaining differences must be "
                  "self - other" % bad, ("C04",))
    # year-range orientation
    if not any(isinstance(n, ast.If) and isinstance(n.test, ast.Compare)
               and len(n.test.ops) == 1 and isinstance(
                   n.test.ops[0], (ast.Gt, ast.Lt)) and n.orelse and
               "year" in U(n.test) for n in walk_no_nested(f.node)):
        rep.undecided(rule, ctx.fkey(f, None, "year-range"), f.loc(),
                      "TimePoint.__sub__ does not count the whole years "
                      "between its operands by the `if later > earlier: += "
                      "range(earlier, later-1) else: -= ...` idiom this rule "
                      "reads: the day count across years is not decided "
                      "here", ("C04",))
    for n in walk_no_nested(f.node):
        if isinstance(n, ast.If) and isinstance(n.test, ast.Compare) and \
                len(n.test.ops) == 1 and isinstance(
                    n.test.ops[0], (ast.Gt, ast.Lt)) and n.orelse:
            t = n.test
            big, small = U(t.left), U(t.comparators[0])
            if isinstance(t.ops[0], ast.Lt):
                big, small = small, big
            if "year" not in big or "year" not in small:
                continue
            rep.anchor(rule, "ordered subtractions")

            def rng(block):
                """(sign with which the year range enters, its arguments)"""
                for st in block:
                    if not isinstance(st, (ast.AugAssign, ast.Assign)):
                        continue
                    calls = [c for c in ast.walk(st.value) if isinstance(
                        c, ast.Call) and "get_days_in_year_range" in U(c.func)]
                    if len(calls) != 1:
                        continue
                    c = calls[0]
                    sign = None
                    if isinstance(st, ast.AugAssign) and st.value is c:
                        sign = type(st.op)
                    elif isinstance(st, ast.Assign):
                        p_ = parent(c)
                        if isinstance(p_, ast.BinOp) and p_ is st.value:
                            if isinstance(p_.op, ast.Add):
                                sign = ast.Add
                            elif isinstance(p_.op, ast.Sub) and p_.right is c:
                                sign = ast.Sub
                    if sign is not None:
                        b = ctx.bound_args(f, c)
                        cs = ctx.in_func(f, c).callees_of_call(c)
                        vals = list(c.args)
                        if len(cs) == 1 and all(
                                p_ in b for p_ in cs[0].call_params):
                            vals = [b[p_] for p_ in cs[0].call_params]
                        return (sign, [U(x).replace(" ", "") for x in vals])
                return None
            tb, fb = rng(n.body), rng(n.orelse)
            ok = tb == (ast.Add, [small, big + "-1"]) and \
                fb == (ast.Sub, [big, small + "-1"])
            rep.check(ok, rule, ctx.fkey(f, None, "year-range"), f.loc(n),
                      "whole years between the operands are added for the "
                      "later year and subtracted otherwise, range "
                      "[earlier, later-1]",
                      "year-range correction is %s / %s under `%s`; expected "
                      "+= range(%s, %s-1) else -= range(%s, %s-1)" % (
                          tb, fb, U(t), small, big, big, small), ("C04",))


RULES = {"R14": r14_zone_pair, "R15": r15_lex_norm, "R32": r32_order_agree}
