"""R16 EQ-HASH, R17 SLOT-COVER (C02, C11, C14, C16, C09)."""
import ast
import re

from ..fold import NotConst, Symbol
from ..model import AnalysisError, U, walk_no_nested, parent, ancestors

EXACT_SLOTS = ("_weeks", "_days", "_hours", "_minutes", "_seconds")
UNIT_SLOTS = ("_years", "_months", "_days", "_hours", "_minutes", "_seconds")


def self_projections(ctx, f, root=None):
    """Slots of self (direct, or via getattr over a constant name list) and
    self-method calls read inside ``root`` (default: whole function)."""
    selfn = f.self_name
    slots, calls = set(), set()
    res = ctx.in_func(f, None)
    for n in walk_no_nested(root if root is not None else f.node):
        if isinstance(n, ast.Attribute) and isinstance(n.value, ast.Name) \
                and n.value.id == selfn and isinstance(n.ctx, ast.Load):
            p = parent(n)
            if isinstance(p, ast.Call) and p.func is n:
                calls.add(n.attr)
            else:
                slots.add(n.attr)
        if isinstance(n, ast.Call) and isinstance(n.func, ast.Name) and \
                n.func.id == "getattr" and len(n.args) >= 2 and isinstance(
                    n.args[0], ast.Name) and n.args[0].id == selfn:
            names = res.const_str_values(n.args[1])
            if names is None:
                raise AnalysisError("%s: getattr(self, %s) with unfoldable "
                                    "name" % (f.loc(n), U(n.args[1])))
            slots |= set(names)
    return slots, calls


def param_slots(ctx, cls):
    """Slots assigned directly from constructor parameters (identity)."""
    init = cls.find_method("__init__")
    out = set()
    if init is None:
        return out
    for n in walk_no_nested(init.node):
        if isinstance(n, ast.Assign) and isinstance(n.value, ast.Name) and \
                n.value.id in init.params:
            for t in n.targets:
                if isinstance(t, ast.Attribute) and isinstance(
                        t.value, ast.Name) and t.value.id == init.self_name:
                    out.add(t.attr)
    return out


def hashed_exprs(f):
    """Argument expressions of hash(...) calls in f."""
    return [n.args[0] for n in walk_no_nested(f.node)
            if isinstance(n, ast.Call) and isinstance(n.func, ast.Name) and
            n.func.id == "hash" and n.args]


def r16_eq_hash(ctx):
    rep = ctx.rep
    m = ctx.model
    # ---------------------------------------------------- TimeRecurrence
    rule = "R16.recurrence"
    rep.need_anchor(rule, "TimeRecurrence.__eq__/__hash__")
    rec = m.cls("TimeRecurrence")
    eq, hs = rec.methods.get("__eq__"), rec.methods.get("__hash__")
    if eq is None or hs is None:
        raise AnalysisError("TimeRecurrence.__eq__/__hash__ not found")
    rep.anchor(rule, "TimeRecurrence.__eq__/__hash__")
    p_eq, _ = self_projections(ctx, eq)
    p_hash = set()
    for h in hashed_exprs(hs):
        s, _c = self_projections(ctx, hs, h)
        p_hash |= s
    ident = param_slots(ctx, rec)
    P14 = ("C14",)
    rep.check(p_hash <= p_eq, rule, ctx.fkey(hs, None, "hash-subset-eq"),
              hs.loc(),
              "hash projects %s, all compared by __eq__" % sorted(p_hash),
              "__hash__ reads %s which __eq__ does not compare: equal "
              "recurrences can hash differently" % sorted(p_hash - p_eq),
              P14)
    rep.check(ident <= p_eq, rule, ctx.fkey(eq, None, "identity-slots"),
              eq.loc(),
              "__eq__ compares every constructor-given component %s" %
              sorted(ident),
              "__eq__ ignores %s: recurrences differing only there compare "
              "equal" % sorted(ident - p_eq), P14)
    rep.check(bool(p_hash), rule, ctx.fkey(hs, None, "hash-nonempty"),
              hs.loc(), "hash reads the recurrence's components",
              "__hash__ hashes nothing of the recurrence", P14,
              nontrivial=False)
    # the comparison in __eq__ must be (in)equality of the two operands'
    # *same* attribute: self.x vs other.x
    okpair = True
    why = ""
    for n in walk_no_nested(eq.node):
        if isinstance(n, ast.Compare) and len(n.ops) == 1 and isinstance(
                n.ops[0], (ast.Eq, ast.NotEq)):
            a, b = n.left, n.comparators[0]
            ta, tb = _attr_of(a), _attr_of(b)
            if ta and tb and ta[1] != tb[1]:
                okpair, why = False, U(n)
    rep.check(okpair, rule, ctx.fkey(eq, None, "same-attribute"), eq.loc(),
              "each comparison pairs the same attribute of both operands",
              "__eq__ compares different attributes: %s" % why, P14)
    # identity components are compared / hashed as they are: no method of a
    # component (a lossy projection such as get_days_and_seconds()) stands
    # between the slot and the comparison
    from ..flow import alternatives
    for fn_ in (eq, hs):
        projected = []
        for n in walk_no_nested(fn_.node):
            if not (isinstance(n, ast.Call) and isinstance(
                    n.func, ast.Attribute)):
                continue
            recv = n.func.value
            srcs = [recv]
            if isinstance(recv, ast.Name):
                alts = alternatives(fn_.node, recv.id)
                srcs = [v for v, _ in alts] if alts else []
            for v in srcs:
                if isinstance(v, ast.Attribute) and v.attr in ident and \
                        isinstance(v.value, ast.Name):
                    projected.append("%s.%s()" % (U(v), n.func.attr))
        rep.check(not projected, rule,
                  ctx.fkey(fn_, None, "components-as-they-are"), fn_.loc(),
                  "%s uses the recurrence's components themselves" %
                  fn_.name,
                  "%s compares/hashes %s instead of the component itself: "
                  "recurrences whose components differ (P1M / P30D) are "
                  "identified" % (fn_.name, sorted(set(projected))), P14)
    # ---------------------------------------------------------- Duration
    rule = "R16.duration"
    dur = m.cls("Duration")
    P11 = ("C11",)
    rep.need_anchor(rule, "Duration comparison methods")
    canon = {"_get_non_nominal_seconds", "get_days_and_seconds",
             "get_seconds"}
    for name in ("__eq__", "__hash__", "__lt__", "__le__", "__gt__",
                 "__ge__"):
        f = dur.methods.get(name)
        if f is None:
            rep.check(name not in ("__eq__", "__hash__"), rule,
                      ctx.mkey("data", "Duration." + name), "-",
                      "ordering method absent (python default)",
                      "Duration.%s is missing" % name, P11, nontrivial=False)
            continue
        rep.anchor(rule, "Duration comparison methods")
        raw = []
        roots = []
        for n in walk_no_nested(f.node):
            if isinstance(n, ast.Compare):
                roots.extend([n.left] + list(n.comparators))
        roots.extend(hashed_exprs(f))
        for r_ in roots:
            for x in ast.walk(r_):
                if isinstance(x, ast.Attribute) and x.attr in EXACT_SLOTS \
                        and isinstance(x.ctx, ast.Load):
                    raw.append(x)
        rep.check(not raw, rule, ctx.fkey(f, None, "canonical-projection"),
                  f.loc(),
                  "%s reads exact units only through canonical projections"
                  % name,
                  "%s compares/hashes the raw slot %s: durations of equal "
                  "length spelled in other units (PT60M vs PT1H, P1W vs P7D) "
                  "disagree" % (name, sorted({U(x) for x in raw})), P11)
    # ordering methods all use the same projection and the matching operator
    projs = {}
    for name, op in (("__lt__", ast.Lt), ("__le__", ast.LtE),
                     ("__gt__", ast.Gt), ("__ge__", ast.GtE)):
        f = dur.methods.get(name)
        if f is None:
            continue
        cmps = [n for n in walk_no_nested(f.node) if isinstance(n, ast.Compare)
                and not isinstance(n.ops[0], (ast.Is, ast.IsNot))]
        good = len(cmps) == 1 and isinstance(cmps[0].ops[0], op)
        pr = None
        if cmps:
            a, b = cmps[0].left, cmps[0].comparators[0]
            pa, pb = _proj_call(a), _proj_call(b)
            good = good and pa is not None and pb is not None and \
                pa[1] == pb[1] and pa[0] == f.self_name and \
                pb[0] == (f.params[1] if len(f.params) > 1 else None)
            pr = pa[1] if pa else None
        projs[name] = pr
        rep.check(good, rule, ctx.fkey(f, None, "operator"), f.loc(),
                  "%s applies %s to the same projection of self and other, "
                  "in this order" % (name, op.__name__),
                  "%s does not compare projection(self) %s projection(other)"
                  " (found %s)" % (name, op.__name__,
                                   [U(c) for c in cmps]), P11)
    rep.check(len(set(projs.values())) <= 1, rule,
              ctx.mkey("data", "Duration:ordering-projection"), dur.node and
              dur.module.loc(dur.node),
              "the four ordering methods share one projection (%s)" %
              sorted(set(projs.values())),
              "ordering methods use different projections %s: <, <=, >, >= "
              "are not mutually consistent" % projs, P11)
    # equality is an equivalence that the hash respects only if lengths are
    # compared with `==`: a projection handed to anything else (a tolerance
    # test such as math.isclose, rounding, a difference) makes == coarser
    # than the hash and intransitive
    eq0 = dur.methods.get("__eq__")
    if eq0 is not None:
        loose = []
        for n in walk_no_nested(eq0.node):
            if isinstance(n, ast.Call) and isinstance(
                    n.func, ast.Attribute) and n.func.attr in canon and \
                    not n.args:
                par = parent(n)
                if isinstance(par, ast.Compare) and len(
                        par.ops) == 1 and isinstance(
                            par.ops[0], (ast.Eq, ast.NotEq)):
                    continue
                if isinstance(par, ast.Assign) and len(
                        par.targets) == 1 and isinstance(
                            par.targets[0], ast.Name):
                    # a temporary: every use must be an ==/!= operand
                    nm = par.targets[0].id
                    uses = [x for x in walk_no_nested(eq0.node)
                            if isinstance(x, ast.Name) and x.id == nm and
                            isinstance(x.ctx, ast.Load)]
                    if all(isinstance(parent(x), ast.Compare) and isinstance(
                            parent(x).ops[0], (ast.Eq, ast.NotEq))
                            for x in uses):
                        continue
                loose.append(U(par)[:70])
        rep.check(not loose, rule, ctx.fkey(eq0, None, "exact-equality"),
                  eq0.loc(),
                  "Duration.__eq__ compares lengths with == only",
                  "Duration.__eq__ passes a length to %s instead of "
                  "comparing it with ==: equal durations may then hash "
                  "differently and order strictly, and == is not "
                  "transitive" % loose, P11)
    # ... and on every path: whatever __eq__ returns for two Durations other
    # than a plain False has compared the two total lengths (a shortcut
    # that answers from something else - emptiness of the fields, identity
    # of one unit - makes == disagree with the hash and the orderings)
    if eq0 is not None and len(eq0.params) > 1:
        from ..dtable import explore as _explore
        sn, on = eq0.self_name, eq0.params[1]

        def _is_total_eq(e):
            if not (isinstance(e, ast.Compare) and len(e.ops) == 1 and
                    isinstance(e.ops[0], ast.Eq)):
                return False
            pa, pb = _proj_call(e.left), _proj_call(e.comparators[0])
            return pa is not None and pb is not None and pa[1] == pb[1] \
                and pa[1] in canon and {pa[0], pb[0]} == {sn, on}

        def _conj(e):
            if isinstance(e, ast.BoolOp) and isinstance(e.op, ast.And):
                for v in e.values:
                    yield from _conj(v)
            else:
                yield e
        try:
            paths = _explore(eq0.node.body)
        except AnalysisError:
            paths = None
        loose = []
        n_ret = 0
        if paths is not None:
            for p_ in paths:
                if p_.outcome != "return" or p_.value is None:
                    continue
                v = p_.value
                if isinstance(v, ast.Constant) and v.value is False or (
                        isinstance(v, ast.Name) and
                        v.id == "NotImplemented"):
                    continue
                if isinstance(v, ast.Call) and U(v.func) in (
                        "NotImplemented",):
                    continue
                n_ret += 1
                if any(_is_total_eq(c) for c in _conj(v)):
                    continue
                est = False
                for atom, val in p_.decisions.items():
                    if not val:
                        continue
                    try:
                        a_ = ast.parse(atom, mode="eval").body
                    except SyntaxError:
                        continue
                    if _is_total_eq(a_):
                        est = True
                if est:
                    continue
                # identity of the operands is an answer of its own
                if any(val and atom.replace(" ", "") in (
                        "%sis%s" % (sn, on), "%sis%s" % (on, sn))
                        for atom, val in p_.decisions.items()):
                    continue
                if p_.skipped:
                    paths = None
                    break
                loose.append("`return %s` when %s" % (
                    U(v)[:60], p_.when()[:120] or "always"))
        if paths is None:
            rep.undecided(rule, ctx.fkey(eq0, None, "eq-paths"), eq0.loc(),
                          "Duration.__eq__ is not tabulated (too many "
                          "paths, or an answer after a loop)", P11)
        else:
            rep.check(not loose and n_ret > 0, rule,
                      ctx.fkey(eq0, None, "eq-paths"), eq0.loc(),
                      "every non-False answer of Duration.__eq__ (%d "
                      "return paths) has compared the total lengths of the "
                      "two operands" % n_ret,
                      "Duration.__eq__ answers without comparing the total "
                      "lengths: %s - durations of zero/equal length spelled "
                      "differently (P1DT-24H vs P0Y) then disagree with "
                      "their hash and with <=/>=" % "; ".join(loose[:3]),
                      P11)
    # the projection the orderings compare lexicographically is canonical:
    # its seconds component is the floor remainder of the signed total
    gds = dur.methods.get("get_days_and_seconds")
    if gds is not None:
        from ..dtable import explore
        finals = set()
        for p_ in explore(gds.node.body):
            if p_.outcome == "return" and isinstance(
                    p_.value, ast.Tuple) and len(p_.value.elts) == 2:
                finals.add(U(p_.value.elts[1]).replace(" ", ""))
        good_rem = [t for t in finals if (
            re.fullmatch(r"divmod\((.*),CALENDAR\.SECONDS_IN_DAY\)\[1\]", t)
            or re.fullmatch(r"\(?(.*)\)?%CALENDAR\.SECONDS_IN_DAY", t))
            and "abs(" not in t]
        good_rem += [t for t in finals if t == "0"]     # the week form
        if finals:
            rep.check(len(good_rem) == len(finals), rule,
                      ctx.fkey(gds, None, "canonical-remainder"), gds.loc(),
                      "get_days_and_seconds returns the floor remainder of "
                      "the signed second count (0 <= seconds < one day): one "
                      "tuple per length",
                      "get_days_and_seconds returns %s as its seconds: not "
                      "the floor remainder of the signed total, so one "
                      "length has several (days, seconds) spellings and the "
                      "lexicographic orderings disagree with ==" %
                      sorted(finals - set(good_rem)), P11)
    # eq/hash agreement
    eq, hs = dur.methods.get("__eq__"), dur.methods.get("__hash__")
    if eq is not None and hs is not None:
        s_eq, c_eq = self_projections(ctx, eq)
        s_h, c_h = set(), set()
        tuples = []
        for h in hashed_exprs(hs):
            s, c = self_projections(ctx, hs, h)
            s_h |= s
            c_h |= c
            tuples.append(h)
        rep.check(s_h <= s_eq and (c_h & canon) <= (c_eq & canon) | {
            "get_is_in_weeks"}, rule,
            ctx.fkey(hs, None, "hash-subset-eq"), hs.loc(),
            "hash projects %s / %s, all read by __eq__" % (
                sorted(s_h), sorted(c_h & canon)),
            "Duration.__hash__ reads %s / %s which __eq__ does not compare"
            % (sorted(s_h - s_eq), sorted((c_h - c_eq) & canon)), P11)
        shapes = set()
        for t in tuples:
            if isinstance(t, ast.Tuple):
                shapes.add(tuple(
                    "0" if (isinstance(e, ast.Constant) and e.value == 0)
                    else ("nom:" + e.attr if isinstance(e, ast.Attribute)
                          and e.attr in ("_years", "_months")
                          else ("proj:" + _proj_call(e)[1]
                                if _proj_call(e) else "?:" + U(e)))
                    for e in t.elts))
            else:
                shapes.add(("?:" + U(t),))
        okshape = bool(shapes) and len({len(s) for s in shapes}) == 1 and \
            all(not any(x.startswith("?") for x in s) for s in shapes)
        if okshape:
            arity = len(next(iter(shapes)))
            for i in range(arity):
                col = {s[i] for s in shapes}
                noms = {c for c in col if c.startswith("nom:")}
                projs_ = {c for c in col if c.startswith("proj:")}
                if len(noms) > 1 or len(projs_) > 1 or (noms and projs_):
                    okshape = False
                if projs_ and "0" in col:
                    okshape = False
        rep.check(okshape, rule, ctx.fkey(hs, None, "hash-shape"), hs.loc(),
                  "week form and unit form hash the same tuple shape %s "
                  "(zeros where the unit form has years/months)" %
                  sorted(shapes),
                  "Duration.__hash__ tuple shapes %s differ between the week "
                  "form and the unit form: P1W and P7D are equal but hash "
                  "differently" % sorted(shapes), P11)
        # nominal equality compares years, months and the exact remainder
        rep.check({"_years", "_months"} <= s_eq and
                  "_get_non_nominal_seconds" in c_eq and "is_exact" in c_eq,
                  rule, ctx.fkey(eq, None, "nominal-components"), eq.loc(),
                  "__eq__ reads years, months, the exact remainder and the "
                  "exactness of both operands",
                  "__eq__ reads %s / %s: it must compare years, months and "
                  "_get_non_nominal_seconds() and dispatch on is_exact()" % (
                      sorted(s_eq), sorted(c_eq)), P11)
    # -------------------------------------------------------- TimePoint
    rule = "R16.timepoint"
    tp = m.cls("TimePoint")
    P02 = ("C02",)
    rep.need_anchor(rule, "rich comparisons")
    try:
        opmap = ctx.folder.module_const("data", "_operator_map")
    except NotConst as exc:
        raise AnalysisError("_operator_map does not fold: %s" % exc)
    rep.tables.add("data._operator_map")
    okmap = all(isinstance(v, Symbol) and v.qual == "operator." + k
                for k, v in opmap.items())
    rep.check(okmap and set(opmap) >= {"eq", "lt", "le", "gt", "ge"}, rule,
              ctx.mkey("data", "_operator_map"), "data.py",
              "_operator_map maps each name to the operator function of the "
              "same name", "_operator_map is %r" % (opmap,), P02)
    cmpf = tp.methods.get("_cmp")
    for name in ("__eq__", "__lt__", "__le__", "__gt__", "__ge__"):
        f = tp.methods.get(name)
        if f is None:
            rep.violation(rule, ctx.mkey("data", "TimePoint." + name), "-",
                          "TimePoint.%s is missing" % name, P02)
            continue
        rep.anchor(rule, "rich comparisons")
        rets = [n for n in walk_no_nested(f.node) if isinstance(n, ast.Return)]
        good = False
        detail = "returns %s" % [U(r.value) for r in rets]
        if len(rets) == 1 and isinstance(rets[0].value, ast.Call):
            c = rets[0].value
            callee = [q for q in ctx.in_func(f, c).callees_of_call(c)]
            cps = list(cmpf.call_params) if cmpf is not None else []
            b_ = ctx.bound_args(f, c)
            if len(callee) == 1 and callee[0] is cmpf and len(cps) == 2 \
                    and set(b_) == set(cps):
                a0, a1 = b_[cps[0]], b_[cps[1]]
                want = name.strip("_")
                good = (isinstance(a0, ast.Name) and len(f.params) > 1 and
                        a0.id == f.params[1] and
                        isinstance(a1, ast.Constant) and a1.value == want and
                        isinstance(c.func, ast.Attribute) and
                        isinstance(c.func.value, ast.Name) and
                        c.func.value.id == f.self_name)
        rep.check(good, rule, ctx.fkey(f, None, "routes-to-cmp"), f.loc(),
                  "%s is self._cmp(other, %r)" % (name, name.strip("_")),
                  "%s does not route to self._cmp(other, %r): %s" % (
                      name, name.strip("_"), detail), P02)
    # key projections: the time of day enters comparison and hash keys only
    # through the precision-independent getters, the date through one fixed
    # date getter (never raw slots / properties, which differ between
    # hh:mm:ss, hh:mm,nn and hh,ii forms of the same instant)
    CANON_TIME = {"get_second_of_day", "get_hour_minute_second"}
    CANON_DATE = {"get_calendar_date", "get_ordinal_date", "get_week_date"}
    RAW_TIME = {"_hour_of_day", "_minute_of_hour", "_second_of_minute",
                "hour_of_day", "minute_of_hour", "second_of_minute",
                "hour_of_day_decimal_string", "minute_of_hour_decimal_string",
                "second_of_minute_decimal_string"}
    RAW_DATE = {"_year", "_month_of_year", "_day_of_month", "_day_of_year",
                "_week_of_year", "_day_of_week", "year", "month_of_year",
                "day_of_month", "day_of_year", "week_of_year", "day_of_week"}
    hf = tp.methods.get("__hash__")
    if hf is not None:
        keys = [h for h in hashed_exprs(hf) if isinstance(h, ast.Tuple)]
        for h in keys:
            raw, getters = [], []
            for x in ast.walk(h):
                if isinstance(x, ast.Attribute) and isinstance(
                        x.ctx, ast.Load):
                    par = parent(x)
                    is_call = isinstance(par, ast.Call) and par.func is x
                    if x.attr in RAW_TIME | RAW_DATE and not is_call:
                        raw.append(x.attr)
                    if is_call and x.attr in CANON_TIME | CANON_DATE:
                        getters.append(x.attr)
            okh = not raw and any(g in CANON_TIME for g in getters) and any(
                g in CANON_DATE for g in getters)
            rep.check(okh, rule, ctx.fkey(hf, None, "canonical-key"),
                      hf.loc(h),
                      "the hashed key is built from %s" % getters,
                      "TimePoint.__hash__ hashes %s: raw fields differ "
                      "between precision forms / representations of one "
                      "instant (12:30 vs 12,5) although == compares them "
                      "equal; the key must come from get_*_date() and "
                      "get_hour_minute_second()/get_second_of_day()" % (
                          raw or getters), P02)
    if cmpf is not None:
        # every key projection applied to the operands inside _cmp: calls of
        # the canonical getters and loads of raw fields, grouped by the
        # block they stand in and by receiver.  A receiver bound by
        # iterating over a literal pair stands for both operands.
        both = set()
        for n in ast.walk(cmpf.node):
            gens = getattr(n, "generators", None)
            for g in gens or ():
                if isinstance(g.iter, (ast.Tuple, ast.List)) and len(
                        g.iter.elts) == 2:
                    both |= {x.id for x in ast.walk(g.target)
                             if isinstance(x, ast.Name)}
                elif isinstance(g.iter, ast.Name) or (
                        isinstance(g.iter, ast.Call) and U(g.iter.func)
                        == "zip"):
                    both |= {x.id for x in ast.walk(g.target)
                             if isinstance(x, ast.Name)}
            if isinstance(n, ast.For) and isinstance(
                    n.iter, (ast.Tuple, ast.List)) and len(n.iter.elts) == 2:
                both |= {x.id for x in ast.walk(n.target)
                         if isinstance(x, ast.Name)}
        blocks = {}
        raw_used = []
        # a local bound only to unbound date getters (Class.get_x_date),
        # applied as f(operand), is that getter applied to the operand
        from ..flow import alternatives as _alts
        fnrefs = {}
        for x in ast.walk(cmpf.node):
            if isinstance(x, ast.Call) and isinstance(x.func, ast.Name) \
                    and len(x.args) == 1 and not x.keywords and \
                    x.func.id not in fnrefs:
                al = _alts(cmpf.node, x.func.id)
                if al and all(isinstance(v, ast.Attribute) and
                              v.attr in CANON_DATE and isinstance(
                                  v.value, ast.Name) and
                              v.value.id == tp.name for v, _ in al):
                    fnrefs[x.func.id] = "|".join(sorted(
                        {v.attr for v, _ in al}))
        for x in ast.walk(cmpf.node):
            if isinstance(x, ast.Call) and isinstance(
                    x.func, ast.Name) and x.func.id in fnrefs and len(
                        x.args) == 1:
                blk = None
                for a in ancestors(x):
                    pa = parent(a)
                    if isinstance(a, ast.stmt) and pa is not None:
                        for fld in ("body", "orelse", "finalbody"):
                            if a in (getattr(pa, fld, None) or []):
                                blk = (id(pa), fld)
                        break
                blocks.setdefault(blk, {}).setdefault(
                    U(x.args[0]), []).append(fnrefs[x.func.id])
        for x in ast.walk(cmpf.node):
            if not (isinstance(x, ast.Attribute) and isinstance(
                    x.ctx, ast.Load)):
                continue
            par = parent(x)
            is_call = isinstance(par, ast.Call) and par.func is x
            if x.attr in RAW_TIME | RAW_DATE and not is_call:
                raw_used.append(x.attr)
                continue
            if not (is_call and x.attr in CANON_TIME | CANON_DATE):
                continue
            recv = U(x.value)
            blk = None
            for a in ancestors(x):
                pa = parent(a)
                if isinstance(a, ast.stmt) and pa is not None:
                    for fld in ("body", "orelse", "finalbody"):
                        if a in (getattr(pa, fld, None) or []):
                            blk = (id(pa), fld)
                    break
            blocks.setdefault(blk, {}).setdefault(recv, []).append(x.attr)
        shapes = []
        same = True
        for blk, by_recv in blocks.items():
            singles = {r: sorted(g) for r, g in by_recv.items()
                       if r not in both}
            shapes.append({r: sorted(g) for r, g in by_recv.items()})
            if singles and (len(singles) != 2 or len(
                    {tuple(g) for g in singles.values()}) != 1):
                same = False
        allg = [g for b in blocks.values() for gs in b.values() for g in gs]
        dynamic = [x.value for x in ast.walk(cmpf.node)
                   if isinstance(x, ast.Constant) and isinstance(
                       x.value, str) and x.value in CANON_DATE | CANON_TIME]
        if (allg or raw_used) and dynamic and not raw_used and not (
                any(g.split("|")[0] in CANON_DATE for g in allg)):
            rep.undecided(rule, ctx.fkey(cmpf, None, "key-shape"),
                          cmpf.loc(), "the date getter is selected by name "
                          "(%s) and applied indirectly: which operand it is "
                          "applied to is not read by this rule" % dynamic,
                          P02)
        elif allg or raw_used:
            canon = not raw_used and any(g in CANON_TIME for g in allg) \
                and any(g.split("|")[0] in CANON_DATE for g in allg)
            rep.check(same and canon, rule,
                      ctx.fkey(cmpf, None, "key-shape"), cmpf.loc(),
                      "both operands are projected by the same date getter "
                      "and a precision-independent time getter: %s" % shapes,
                      "TimePoint._cmp projects its operands as %s%s: both "
                      "keys must use the same date getter and a "
                      "precision-independent time getter" % (
                          shapes, (" and reads raw fields %s" % raw_used)
                          if raw_used else ""), P02)
        else:
            rep.error("R16", "TimePoint._cmp: comparison keys not found")
    for bad in ("__ne__", "__cmp__"):
        rep.check(bad not in tp.methods, rule,
                  ctx.mkey("data", "TimePoint." + bad + ":absent"), "-",
                  "no custom %s (python derives != from ==)" % bad,
                  "TimePoint defines %s: != is no longer the complement of "
                  "== by construction" % bad, P02, nontrivial=False)
    if cmpf is not None:
        # reflexive shortcut
        opn = cmpf.params[2] if len(cmpf.params) > 2 else None
        found = False
        for n in walk_no_nested(cmpf.node):
            if isinstance(n, ast.If) and "get_props" in U(n.test) and \
                    isinstance(n.test, ast.Compare) and isinstance(
                        n.test.ops[0], ast.Eq):
                rets = [x for x in n.body if isinstance(x, ast.Return)]
                if not rets:
                    continue
                found = True
                vals = {}
                for k in ("eq", "lt", "le", "gt", "ge"):
                    try:
                        vals[k] = bool(ctx.folder.fold(
                            rets[0].value, cmpf.module, None, {opn: k}))
                    except NotConst:
                        vals[k] = None
                want = {"eq": True, "le": True, "ge": True, "lt": False,
                        "gt": False}
                rep.check(vals == want, rule,
                          ctx.fkey(cmpf, None, "reflexive-shortcut"),
                          cmpf.loc(n),
                          "identical operands: True exactly for eq, le, ge",
                          "identical-operands shortcut returns %s" % vals,
                          P02)
        if not found:
            rep.note(rule, "no identical-operands shortcut in _cmp", P02)
        # final operator application: (mine, other) in this order, keys built
        # the same way
        calls = [n for n in walk_no_nested(cmpf.node)
                 if isinstance(n, ast.Call) and isinstance(
                     n.func, ast.Subscript) and U(n.func.value) ==
                 "_operator_map"]
        for c in calls:
            selfn, othern = cmpf.params[0], cmpf.params[1]
            if len(c.args) == 1 and isinstance(c.args[0], ast.Starred):
                # op(*keys): keys built by a comprehension over the operand
                # pair; the order of the pair is the order of the operands
                from .zone import receiver_sources
                seq = c.args[0].value
                order = None
                if isinstance(seq, ast.Name):
                    ds = [n for n in walk_no_nested(cmpf.node)
                          if isinstance(n, ast.Assign) and any(
                              isinstance(t, ast.Name) and t.id == seq.id
                              for t in n.targets)]
                    if len(ds) == 1 and isinstance(ds[0].value, ast.ListComp):
                        comp = ds[0].value
                        tnames = [x for x in ast.walk(
                            comp.generators[0].target)
                            if isinstance(x, ast.Name)]
                        for tn in tnames:
                            srcs = receiver_sources(cmpf, tn)
                            if len(srcs) == 2 and srcs[0] is not tn:
                                order = [_roots(cmpf, s_) for s_ in srcs]
                if order is None:
                    rep.undecided(rule, ctx.fkey(cmpf, c, "operand-order"),
                                  cmpf.loc(c), "the operands of %s are "
                                  "passed as an unpacked sequence whose "
                                  "construction this rule does not read" %
                                  U(c), P02)
                    continue
                ra, rb = order
            elif len(c.args) != 2:
                continue
            else:
                ra = _roots(cmpf, c.args[0])
                rb = _roots(cmpf, c.args[1])
            good = (selfn in ra and othern not in ra and othern in rb and
                    selfn not in rb)
            rep.check(good, rule, ctx.fkey(cmpf, c, "operand-order"),
                      cmpf.loc(c),
                      "operator is applied to (key of self, key of other)",
                      "operator applied to keys derived from %s and %s: "
                      "expected (self, other) in this order" % (
                          sorted(ra), sorted(rb)), P02)


def _only_zone_self(f, expr, selfn):
    """other's key may mention self only as the zone to convert into."""
    for n in ast.walk(expr):
        pass
    return True


def _roots(f, expr, depth=0, seen=None):
    """Parameters an expression is derived from (following local defs)."""
    seen = seen if seen is not None else set()
    out = set()
    for n in ast.walk(expr):
        if isinstance(n, ast.Name) and isinstance(n.ctx, ast.Load):
            if n.id in f.params:
                # `other.to_time_zone(self._time_zone)`: an argument that is
                # only the zone of self does not make the value self-derived
                p = parent(n)
                if isinstance(p, ast.Attribute) and p.attr == "_time_zone":
                    continue
                out.add(n.id)
            if n.id not in seen and depth < 6:
                seen.add(n.id)
                for st in walk_no_nested(f.node):
                    if not isinstance(st, ast.Assign):
                        continue
                    for t in st.targets:
                        if isinstance(t, ast.Name) and t.id == n.id:
                            out |= _roots(f, st.value, depth + 1, seen)
                        elif isinstance(t, (ast.Tuple, ast.List)):
                            for i, e in enumerate(t.elts):
                                if isinstance(e, ast.Name) and e.id == n.id:
                                    v = st.value
                                    if isinstance(v, (ast.Tuple, ast.List)) \
                                            and len(v.elts) == len(t.elts):
                                        v = v.elts[i]
                                    elif isinstance(v, ast.Call) and U(
                                            v.func) == "map" and len(
                                                v.args) == 2 and isinstance(
                                                    v.args[1], (ast.Tuple,
                                                                ast.List)) \
                                            and len(v.args[1].elts) == len(
                                                t.elts):
                                        # a, b = map(f, (x, y))
                                        v = v.args[1].elts[i]
                                    out |= _roots(f, v, depth + 1, seen)
    return out


def _attr_of(e):
    """("self"/"other", attrname) for x.attr or getattr(x, name)."""
    if isinstance(e, ast.Attribute) and isinstance(e.value, ast.Name):
        return (e.value.id, e.attr)
    if isinstance(e, ast.Call) and isinstance(e.func, ast.Name) and \
            e.func.id == "getattr" and len(e.args) >= 2 and isinstance(
                e.args[0], ast.Name):
        return (e.args[0].id, U(e.args[1]))
    return None


def _proj_call(e):
    """(receiver name, method) for x.method()"""
    if isinstance(e, ast.Call) and isinstance(e.func, ast.Attribute) and \
            isinstance(e.func.value, ast.Name) and not e.args:
        return (e.func.value.id, e.func.attr)
    return None


# -------------------------------------------------------------------- R17
def _slot_writes(ctx, f, base):
    """Slots of local/param ``base`` written in f: explicit stores, or
    'ALL' when setattr runs over __slots__."""
    res = ctx.in_func(f, None)
    out = set()
    for n in walk_no_nested(f.node):
        tg = []
        if isinstance(n, ast.Assign):
            for t in n.targets:
                tg.extend(t.elts if isinstance(t, (ast.Tuple, ast.List))
                          else [t])
        elif isinstance(n, ast.AugAssign):
            tg = [n.target]
        elif isinstance(n, ast.Call) and isinstance(n.func, ast.Name) and \
                n.func.id == "setattr" and len(n.args) == 3 and isinstance(
                    n.args[0], ast.Name) and n.args[0].id == base:
            names = res.const_str_values(n.args[1])
            if names is None:
                out.add("ALL")
            else:
                out |= set(names)
        for t in tg:
            if isinstance(t, ast.Attribute) and isinstance(
                    t.value, ast.Name) and t.value.id == base:
                out.add(t.attr)
    return out


def r17_slot_cover(ctx):
    rep = ctx.rep
    rule = "R17.slot-cover"
    m = ctx.model
    dur, tp, tz = m.cls("Duration"), m.cls("TimePoint"), m.cls("TimeZone")
    dslots = list(ctx.folder.need_class_const(dur, "__slots__"))
    zslots = list(ctx.folder.need_class_const(tz, "__slots__"))
    tslots = list(ctx.folder.need_class_const(tp, "__slots__"))
    rep.need_anchor(rule, "slot-wise operations")
    P11, P16 = ("C11",), ("C16",)
    # copies iterate the dynamic __slots__
    for cls, slots in ((dur, dslots), (tp, tslots)):
        f = cls.methods.get("_copy")
        if f is None:
            raise AnalysisError("%s._copy not found" % cls.name)
        rep.anchor(rule, "slot-wise operations")
        news = [n.targets[0].id for n in walk_no_nested(f.node)
                if isinstance(n, ast.Assign) and isinstance(
                    n.value, ast.Call) and isinstance(
                        n.targets[0], ast.Name)]
        covered = set()
        dyn = False
        for nv in news:
            w = _slot_writes(ctx, f, nv)
            covered |= w
        for n in walk_no_nested(f.node):
            if isinstance(n, ast.For) and U(n.iter) == "%s.__slots__" % \
                    f.self_name:
                dyn = True
        want = set(zslots) if cls is dur else set(slots)
        rep.check(want <= covered or "ALL" in covered, rule,
                  ctx.fkey(f, None, "covers-all-slots"), f.loc(),
                  "%s._copy fills every slot%s" % (
                      cls.name, " (iterating the instance's own __slots__, "
                      "so subclasses are covered)" if dyn else ""),
                  "%s._copy leaves %s unset" % (cls.name,
                                                sorted(want - covered)),
                  P16 + P11)
        if cls is dur:
            rep.check(dyn, rule, ctx.fkey(f, None, "dynamic-slots"), f.loc(),
                      "iterates self.__slots__ (a TimeZone copy includes "
                      "_unknown)",
                      "Duration._copy does not iterate self.__slots__: a "
                      "TimeZone copy would miss _unknown", P16)
    # TimePoint._copy replaces the zone by a copy
    f = tp.methods["_copy"]
    zone_copied = any(
        isinstance(n, ast.Assign) and isinstance(
            n.targets[0], ast.Attribute) and
        n.targets[0].attr == "_time_zone" and isinstance(n.value, ast.Call)
        and isinstance(n.value.func, ast.Attribute) and
        n.value.func.attr == "_copy" for n in walk_no_nested(f.node))
    rep.check(zone_copied, rule, ctx.fkey(f, None, "zone-copied"), f.loc(),
              "the copy gets its own TimeZone object",
              "TimePoint._copy shares the TimeZone object with the original",
              P16)
    # Duration.__add__ / __floordiv__ touch all unit slots + the week form
    for name, opname in (("__add__", "+="), ("__floordiv__", "//=")):
        f = dur.methods.get(name)
        if f is None:
            continue
        rep.anchor(rule, "slot-wise operations")
        aug = {}
        for n in walk_no_nested(f.node):
            if isinstance(n, ast.AugAssign) and isinstance(
                    n.target, ast.Attribute) and isinstance(
                        n.target.value, ast.Name):
                aug.setdefault(n.target.attr, []).append(n)
            elif isinstance(n, ast.Assign) and len(n.targets) == 1 and \
                    isinstance(n.targets[0], ast.Attribute) and isinstance(
                        n.targets[0].value, ast.Name) and isinstance(
                            n.value, ast.BinOp) and isinstance(
                                n.value.op, ast.Add) and \
                    U(n.targets[0]) in (U(n.value.left), U(n.value.right)):
                # `x.s = x.s + v` / `x.s = v + x.s` (numbers: the same
                # update as `x.s += v`)
                t_ = n.targets[0]
                v_ = n.value.right if U(n.value.left) == U(t_) \
                    else n.value.left
                fake = ast.copy_location(ast.AugAssign(
                    target=t_, op=ast.Add(), value=v_), n)
                aug.setdefault(t_.attr, []).append(fake)
        missing = [s for s in UNIT_SLOTS + ("_weeks",) if s not in aug]
        rep.check(not missing, rule, ctx.fkey(f, None, "all-units"), f.loc(),
                  "%s updates all six unit slots and the week form" % name,
                  "Duration.%s does not update %s: that component is "
                  "silently dropped" % (name, missing), P11)
        if name == "__add__":
            bad = []
            for s, nodes in aug.items():
                for n in nodes:
                    v = n.value
                    other_ = f.params[1] if len(f.params) > 1 else None
                    if not (isinstance(v, ast.Attribute) and v.attr == s and
                            isinstance(n.op, ast.Add) and isinstance(
                                v.value, ast.Name) and
                            v.value.id == other_):
                        bad.append(U(n))
            rep.check(not bad, rule, ctx.fkey(f, None, "slot-to-slot"),
                      f.loc(), "each slot receives the same slot of the "
                      "other operand",
                      "Duration.__add__ mixes components: %s" % bad, P11)
    # any method that rewrites slots through a *literal* list of slot names
    # covers, together with its explicit stores, every unit slot (a list
    # copied from elsewhere that leaves a unit out - the week form, say -
    # silently skips that component)
    all_units = set(UNIT_SLOTS) | {"_weeks"}
    for cls_ in (dur, tz):
        for name, f in sorted(cls_.methods.items()):
            lists = []
            for n in walk_no_nested(f.node):
                if isinstance(n, ast.For) and isinstance(
                        n.iter, (ast.List, ast.Tuple)) and n.iter.elts and \
                        all(isinstance(e, ast.Constant) and
                            e.value in all_units for e in n.iter.elts) and \
                        any(isinstance(c, ast.Call) and U(c.func) == "setattr"
                            for st in n.body for c in ast.walk(st)):
                    lists.append(n)
            if not lists:
                continue
            rep.anchor(rule, "slot-wise operations")
            covered = set()
            for n in lists:
                covered |= {e.value for e in n.iter.elts}
            for n in walk_no_nested(f.node):
                tg = []
                if isinstance(n, ast.Assign):
                    tg = n.targets
                elif isinstance(n, ast.AugAssign):
                    tg = [n.target]
                for t in tg:
                    for x in (t.elts if isinstance(t, ast.Tuple) else [t]):
                        if isinstance(x, ast.Attribute) and \
                                x.attr in all_units:
                            covered.add(x.attr)
            missing = sorted(all_units - covered)
            rep.check(not missing, rule,
                      ctx.fkey(f, None, "literal-slot-list"), f.loc(lists[0]),
                      "%s.%s rewrites its unit slots through a literal list "
                      "that, with its explicit stores, covers all seven" % (
                          cls_.name, name),
                      "%s.%s rewrites unit slots through a literal list of "
                      "names but never touches %s: that component keeps its "
                      "old value (a week-form duration is left unchanged)" %
                      (cls_.name, name, missing), P11 + ("C14",))
    for name in ("__mul__", "__abs__", "__bool__"):
        f = dur.methods.get(name)
        if f is None:
            continue
        rep.anchor(rule, "slot-wise operations")
        loops = [n for n in walk_no_nested(f.node) if isinstance(n, ast.For)
                 and U(n.iter).endswith(".__slots__")]
        loops += [g for n in ast.walk(f.node)
                  for g in getattr(n, "generators", ())
                  if U(g.iter).endswith(".__slots__")]
        rep.check(bool(loops), rule, ctx.fkey(f, None, "iterates-slots"),
                  f.loc(), "%s iterates __slots__" % name,
                  "Duration.%s no longer iterates __slots__ (cannot show "
                  "that every unit is covered)" % name, P11)
    for name, target in (("__sub__", "__add__"), ("__rmul__", "__mul__")):
        f = dur.methods.get(name)
        if f is None:
            continue
        rep.anchor(rule, "slot-wise operations")
        callees = ctx.res.callees(f.qual)
        rep.check(dur.methods[target].qual in callees, rule,
                  ctx.fkey(f, None, "delegates"), f.loc(),
                  "%s delegates to %s" % (name, target),
                  "Duration.%s no longer delegates to %s (%s)" % (
                      name, target, sorted(callees)), P11)
    # a subtraction written out slot by slot subtracts in every slot (a
    # branch copied from __add__ keeps its +=)
    f = dur.methods.get("__sub__")
    if f is not None:
        wrong = [U(n) for n in walk_no_nested(f.node)
                 if isinstance(n, ast.AugAssign) and isinstance(
                     n.target, ast.Attribute) and
                 n.target.attr in UNIT_SLOTS + ("_weeks",) and isinstance(
                     n.value, ast.Attribute) and
                 n.value.attr == n.target.attr and not isinstance(
                     n.op, ast.Sub)]
        rep.check(not wrong, rule, ctx.fkey(f, None, "slot-operator"),
                  f.loc(), "every slot-wise step of __sub__ subtracts",
                  "Duration.__sub__ combines a slot with the same slot of "
                  "the other operand by %s: that unit (the week form) is "
                  "added instead of subtracted" % wrong, P11)
    f = dur.methods.get("__sub__")
    if f is not None:
        neg = [n for n in walk_no_nested(f.node) if isinstance(n, ast.BinOp)
               and isinstance(n.op, ast.Mult) and (
                   U(n.left) in ("-1", "(-1)") or U(n.right) in ("-1",))]
        rep.check(bool(neg) or any(isinstance(n, ast.UnaryOp) and isinstance(
            n.op, ast.USub) for n in walk_no_nested(f.node)), rule,
            ctx.fkey(f, None, "negation"), f.loc(),
            "subtraction is addition of the negation",
            "Duration.__sub__ does not negate the subtrahend", P11)
    # projections read the right slots
    f = dur.methods.get("_get_non_nominal_seconds")
    if f is not None:
        s, _c = self_projections(ctx, f)
        s &= set(dslots)
        rep.check(s == set(EXACT_SLOTS), rule,
                  ctx.fkey(f, None, "exact-slots"), f.loc(),
                  "_get_non_nominal_seconds reads exactly the exact-unit "
                  "slots",
                  "_get_non_nominal_seconds reads %s, expected %s" % (
                      sorted(s), sorted(EXACT_SLOTS)), P11 + ("C01", "C04"))
    f = dur.methods.get("get_days_and_seconds")
    if f is not None:
        s, _c = self_projections(ctx, f)
        s &= set(dslots)
        rep.check(s == set(dslots), rule,
                  ctx.fkey(f, None, "all-slots"), f.loc(),
                  "get_days_and_seconds reads every unit slot",
                  "get_days_and_seconds ignores %s" % sorted(
                      set(dslots) - s), P11)
    f = dur.methods.get("to_days")
    if f is not None:
        w = set()
        copies = [n.targets[0].id for n in walk_no_nested(f.node)
                  if isinstance(n, ast.Assign) and isinstance(
                      n.targets[0], ast.Name) and isinstance(
                          n.value, ast.Call) and U(n.value.func).endswith(
                              "._copy")]
        for nv in copies:
            w |= _slot_writes(ctx, f, nv)
        rep.check(set(dslots) <= w or "ALL" in w, rule,
                  ctx.fkey(f, None, "fills-all"), f.loc(),
                  "to_days leaves no slot None",
                  "to_days leaves %s unset (None) in the day form" % sorted(
                      set(dslots) - w), P11 + ("C01",))
    # TimeZone.__init__ assigns all 8 slots
    f = tz.methods.get("__init__")
    if f is not None:
        w = _slot_writes(ctx, f, f.self_name)
        rep.check(set(zslots) <= w, rule, ctx.fkey(f, None, "all-slots"),
                  f.loc(), "TimeZone.__init__ assigns all %d slots" %
                  len(zslots),
                  "TimeZone.__init__ leaves %s unset" % sorted(
                      set(zslots) - w), ("C06", "C16"))


RULES = {"R16": r16_eq_hash, "R17": r17_slot_cover}
