"""Rules added after the fifth seeding round (R56 ...): path-wise
obligations read off decision tables (sa/dtable.py) and key-flow checks."""
import ast
import re

from ..model import AnalysisError, U, walk_no_nested, parent, npos
from .normalise import callee_quals

RULES = {}

UNITS = ("_seconds", "_minutes", "_hours", "_days", "_months", "_years")


# ------------------------------------------------------------------- R56
ALL_UNITS = frozenset(UNITS)


class _UnitFlow:
    """Must-apply analysis of duration units under one valuation of the
    unit guards.  State: (carried: local -> units it holds, applied: units
    that have reached the result, isdur: the operand is known to be a
    Duration).  Unknown tests are taken both ways and joined (applied:
    intersection, carried: union)."""

    def __init__(self, ctx, f, val):
        self.ctx, self.f, self.val = ctx, f, val
        self.returns = []       # (stmt, applied, isdur)

    # -------------------------------------------------------------- values
    def units(self, e, st):
        out = set()
        if e is None:
            return out
        for n in ast.walk(e):
            if isinstance(n, ast.Attribute) and n.attr in ALL_UNITS and \
                    isinstance(n.ctx, ast.Load):
                out.add(n.attr)
            elif isinstance(n, ast.Name) and isinstance(n.ctx, ast.Load):
                out |= st[0].get(n.id, set())
                par = parent(n)
                if not (isinstance(par, ast.Attribute) and par.value is n) \
                        and "Duration" in self.ctx.types_in(self.f, n) and \
                        not isinstance(par, ast.Call):
                    out |= ALL_UNITS
                elif isinstance(par, ast.Call) and n in par.args and \
                        "Duration" in self.ctx.types_in(self.f, n) and \
                        U(par.func) not in ("isinstance", "type"):
                    out |= ALL_UNITS
        return out

    def truth(self, t, st):
        """True / False / None (unknown)"""
        if isinstance(t, ast.BoolOp):
            vals = [self.truth(v, st) for v in t.values]
            if isinstance(t.op, ast.And):
                if any(v is False for v in vals):
                    return False
                return True if all(v is True for v in vals) else None
            if any(v is True for v in vals):
                return True
            return False if all(v is False for v in vals) else None
        if isinstance(t, ast.UnaryOp) and isinstance(t.op, ast.Not):
            v = self.truth(t.operand, st)
            return None if v is None else not v
        if isinstance(t, ast.Attribute) and t.attr in ALL_UNITS:
            return self.val[t.attr]
        if isinstance(t, ast.Compare) and len(t.ops) == 1 and isinstance(
                t.left, ast.Attribute) and t.left.attr in ALL_UNITS and \
                isinstance(t.comparators[0], ast.Constant) and \
                t.comparators[0].value == 0:
            if isinstance(t.ops[0], ast.NotEq):
                return self.val[t.left.attr]
            if isinstance(t.ops[0], ast.Eq):
                return not self.val[t.left.attr]
        return None

    @staticmethod
    def _dur_test(t):
        """+1: test says `is a Duration`, -1: says it is not, 0: silent."""
        if isinstance(t, ast.Call) and U(t.func) == "isinstance" and len(
                t.args) == 2 and U(t.args[1]).split(".")[-1] == "Duration":
            return 1
        if isinstance(t, ast.UnaryOp) and isinstance(t.op, ast.Not):
            return -_UnitFlow._dur_test(t.operand)
        if isinstance(t, ast.BoolOp) and isinstance(t.op, ast.And):
            return 1 if any(_UnitFlow._dur_test(v) == 1
                            for v in t.values) else 0
        return 0

    # ---------------------------------------------------------- statements
    @staticmethod
    def join(a, b):
        if a is None:
            return b
        if b is None:
            return a
        car = {k: set(a[0].get(k, ())) | set(b[0].get(k, ()))
               for k in set(a[0]) | set(b[0])}
        return (car, a[1] & b[1], a[2] and b[2])

    def block(self, stmts, st):
        for s in stmts:
            if st is None:
                return None
            st = self.stmt(s, st)
        return st

    def stmt(self, s, st):
        car, app, isdur = dict(st[0]), set(st[1]), st[2]
        if isinstance(s, ast.Return):
            app |= self.units(s.value, st)
            self.returns.append((s, frozenset(app), isdur))
            return None
        if isinstance(s, ast.Raise):
            return None
        if isinstance(s, (ast.Assign, ast.AnnAssign, ast.AugAssign)):
            if getattr(s, "value", None) is None:
                return st
            u = self.units(s.value, st)
            tg = s.targets if isinstance(s, ast.Assign) else [s.target]
            for t in tg:
                for x in (t.elts if isinstance(t, (ast.Tuple, ast.List))
                          else [t]):
                    if isinstance(x, ast.Name):
                        if isinstance(s, ast.AugAssign):
                            car[x.id] = set(car.get(x.id, ())) | u
                        else:
                            car[x.id] = set(u)
                    else:
                        app |= u
            return (car, app, isdur)
        if isinstance(s, ast.Expr):
            if isinstance(s.value, ast.Call):
                app |= self.units(s.value, st)
            return (car, app, isdur)
        if isinstance(s, ast.If):
            tv = self.truth(s.test, st)
            d = self._dur_test(s.test)
            st_t = (car, app, isdur or d == 1)
            st_f = (dict(car), set(app), isdur or d == -1)
            a = self.block(s.body, st_t) if tv is not False else None
            b = self.block(s.orelse, st_f) if tv is not True else None
            return self.join(a, b)
        if isinstance(s, (ast.For, ast.While)):
            cur = (car, app, isdur)
            once = self.block(s.body, cur)
            twice = self.block(s.body, once) if once is not None else None
            out = self.join(self.join(cur, once), twice)
            if s.orelse and out is not None:
                out = self.block(s.orelse, out)
            return out
        if isinstance(s, ast.Try):
            a = self.block(s.body + s.orelse, (car, app, isdur))
            outs = a
            for h in s.handlers:
                outs = self.join(outs, self.block(
                    h.body, (dict(car), set(app), isdur)))
            if s.finalbody and outs is not None:
                outs = self.block(s.finalbody, outs)
            return outs
        if isinstance(s, ast.With):
            return self.block(s.body, (car, app, isdur))
        return (car, app, isdur)


def r56_units_applied(ctx):
    """p + d applies every unit of d.  For each of the 64 zero/non-zero
    combinations of the six unit slots of the duration, on every path of
    TimePoint.__add__ that returns for a Duration operand, each non-zero
    unit has flowed into the result (a field store, the returned object, a
    call made for its effect).  A unit that is folded into a temporary
    which a later guard then skips - or whose block is gone - is silently
    dropped."""
    rep = ctx.rep
    rule = "R56.units-applied"
    P = ("C01", "C05", "C04", "C06", "C12", "C20")
    f = ctx.func("data.TimePoint.__add__")
    rep.need_anchor(rule, "Duration paths of TimePoint.__add__")
    import itertools
    missing = {}
    n_ret = 0
    for combo in itertools.product((False, True), repeat=len(UNITS)):
        val = dict(zip(UNITS, combo))
        fl = _UnitFlow(ctx, f, val)
        fl.block(f.node.body, ({}, set(), False))
        for s, app, isdur in fl.returns:
            if not isdur:
                continue
            n_ret += 1
            for u in UNITS:
                if val[u] and u not in app:
                    missing.setdefault(u, (s, val))
    rep.anchor(rule, "Duration paths of TimePoint.__add__")
    if not n_ret:
        rep.undecided(rule, ctx.fkey(f, None, "units"), f.loc(),
                      "TimePoint.__add__ does not select its Duration branch "
                      "by an isinstance test this rule reads", P)
        return
    rep.check(not missing, rule, ctx.fkey(f, None, "units"), f.loc(),
              "for all 64 zero/non-zero combinations of the duration's six "
              "units, every non-zero unit reaches the result on every "
              "returning Duration path",
              "TimePoint.__add__ drops a duration unit: %s" % "; ".join(
                  "%s does not reach the result returned at line %d on some "
                  "path when the non-zero units are %s" % (
                      u, s.lineno, sorted(k for k, v in val.items() if v))
                  for u, (s, val) in sorted(missing.items())), P)


RULES["R56"] = r56_units_applied


# ------------------------------------------------------------------- R57
_FLIP = {ast.Lt: ast.Gt, ast.Gt: ast.Lt, ast.LtE: ast.GtE, ast.GtE: ast.LtE}


def r57_period_start_bounds(ctx):
    """The first day of a week-year belongs to that week-year.  A value
    compared with the start of a week-year (what get_*_week_date_start
    returns) is therefore compared half-open: `value < start` (before the
    period) or `value >= start` (inside or after).  `value <= start` or
    `value > start` puts the Monday that opens week 1 into the year
    before."""
    rep = ctx.rep
    rule = "R57.period-start"
    P = ("C03", "C08", "C15")
    rep.need_anchor(rule, "comparisons with a week-year start")
    from ..flow import alternatives

    def is_start_call(f, e):
        return isinstance(e, ast.Call) and any(
            q.split(".")[-1].lstrip("_").endswith("week_date_start")
            for q in callee_quals(ctx, f, e))

    n_sites = 0
    for f in ctx.model.all_functions():
        if f.module.name != "data":
            continue
        starts = set()
        for n in walk_no_nested(f.node):
            if isinstance(n, ast.Assign) and len(n.targets) == 1 and \
                    isinstance(n.targets[0], ast.Name) and is_start_call(
                        f, n.value):
                starts.add(n.targets[0].id)

        def is_start(e):
            if isinstance(e, ast.Name):
                if e.id in starts:
                    alts = alternatives(f.node, e.id)
                    return bool(alts) and all(is_start_call(f, v)
                                              for v, _ in alts)
                return False
            return is_start_call(f, e)
        for n in walk_no_nested(f.node):
            if not isinstance(n, ast.Compare):
                continue
            operands = [n.left] + list(n.comparators)
            for i, op in enumerate(n.ops):
                a, b = operands[i], operands[i + 1]
                if type(op) not in _FLIP:
                    continue
                sa_, sb = is_start(a), is_start(b)
                if sa_ == sb:
                    continue
                # normalise to  value OP start
                opt = type(op) if sb else _FLIP[type(op)]
                value, start = (a, b) if sb else (b, a)
                n_sites += 1
                rep.anchor(rule, "comparisons with a week-year start")
                rep.check(
                    opt in (ast.Lt, ast.GtE), rule,
                    ctx.fkey(f, n, "half-open:%d" % i), f.loc(n),
                    "%s is compared half-open with the week-year start %s"
                    % (U(value), U(start)),
                    "%s: `%s` treats the first day of the week-year (%s) as "
                    "lying outside it - the Monday that opens week 1 is "
                    "given to the previous week-year (a week 53 that does "
                    "not exist) or skipped" % (f.qual, U(n)[:80], U(start)),
                    P)
    if not n_sites:
        rep.undecided(rule, ctx.mkey("data", "week-year-start-comparisons"),
                      "-", "no ordering comparison against a week-year start "
                      "is written in data.py (the week-year of a date is "
                      "found some other way)", P)
        rep.anchor(rule, "comparisons with a week-year start")


RULES["R57"] = r57_period_start_bounds


# ------------------------------------------------------------------- R58
_PRINTABLE = frozenset(chr(c) for c in range(32, 127))


def _lit_items(text):
    return [(frozenset(ch), 1, 1, None) for ch in text]


def _text_atom_shape(t, pol, sname):
    """Shape (tables.shape_of items) of the strings for which the test `t`
    on the string variable `sname` has truth value `pol`; None when the
    test is not one of the textual forms read here."""
    from ..tables import INF
    ANY = (None, 0, INF, None)

    def sliced(e):
        """(is the string, start offset)"""
        if isinstance(e, ast.Name) and e.id == sname:
            return 0
        if isinstance(e, ast.Subscript) and isinstance(
                e.value, ast.Name) and e.value.id == sname and isinstance(
                    e.slice, ast.Slice) and e.slice.upper is None and \
                e.slice.step is None and isinstance(
                    e.slice.lower, ast.Constant) and isinstance(
                        e.slice.lower.value, int) and e.slice.lower.value >= 0:
            return e.slice.lower.value
        return None
    if isinstance(t, ast.Compare) and len(t.ops) == 1 and isinstance(
            t.left, ast.Constant) and isinstance(t.left.value, str) and \
            t.left.value:
        k = sliced(t.comparators[0])
        c = t.left.value
        if k is not None and isinstance(t.ops[0], (ast.In, ast.NotIn)):
            want_in = isinstance(t.ops[0], ast.In) == pol
            if want_in:
                return [(None, k, k, None), ANY] + _lit_items(c) + [ANY]
            if len(c) == 1:
                return [(None, k, k, None),
                        (_PRINTABLE - {c}, 0, INF, None)]
            return None
    if isinstance(t, ast.Call) and isinstance(t.func, ast.Attribute) and \
            isinstance(t.func.value, ast.Name) and \
            t.func.value.id == sname and len(t.args) == 1 and isinstance(
                t.args[0], ast.Constant) and isinstance(
                    t.args[0].value, str) and t.args[0].value and pol:
        c = t.args[0].value
        if t.func.attr == "startswith":
            return _lit_items(c) + [ANY]
        if t.func.attr == "endswith":
            return [ANY] + _lit_items(c)
    if isinstance(t, ast.Compare) and len(t.ops) == 1 and isinstance(
            t.ops[0], (ast.Eq, ast.NotEq)) and isinstance(
                t.left, ast.Subscript) and isinstance(
                    t.left.value, ast.Name) and t.left.value.id == sname \
            and isinstance(t.left.slice, ast.Constant) and isinstance(
                t.left.slice.value, int) and t.left.slice.value >= 0 and \
            isinstance(t.comparators[0], ast.Constant) and isinstance(
                t.comparators[0].value, str) and len(
                    t.comparators[0].value) == 1:
        i, c = t.left.slice.value, t.comparators[0].value
        if isinstance(t.ops[0], ast.Eq) == pol:
            return [(None, i, i, None), (frozenset(c), 1, 1, None), ANY]
        return [(None, i, i, None), (_PRINTABLE - {c}, 1, 1, None), ANY]
    return None


def _atoms_of(conds):
    """path conditions -> [(atom, polarity)] with conjunctions split; None
    when a disjunction has to hold (not split here)."""
    out = []

    def add(t, pol):
        if isinstance(t, ast.UnaryOp) and isinstance(t.op, ast.Not):
            return add(t.operand, not pol)
        if isinstance(t, ast.BoolOp):
            conj = isinstance(t.op, ast.And) == pol
            if not conj:
                return False
            return all(add(v, pol) for v in t.values)
        out.append((t, pol))
        return True
    for t, pol in conds:
        if not add(t, pol):
            return None
    return out


def r58_textual_refusal(ctx):
    """What the parser accepts is decided by its tables of forms.  Where a
    lookup function refuses a string by looking at its text (a character
    that 'cannot occur'), that refusal must be disjoint from every form the
    tables hold for the configuration in question: the set of strings the
    test selects is intersected with the shape of each form's regular
    expression."""
    rep = ctx.rep
    rule = "R58.textual-refusal"
    P = ("C07", "C09", "C08")
    rep.need_anchor(rule, "form lookup functions")
    from ..flow import path_conds
    from ..tables import shape_of, shapes_intersect
    from .tablerules import tables_of, _forms
    T = tables_of(ctx)
    forms_by_n = {}
    for q, kind in (("parsers.TimePointParser.get_date_info", "date"),
                    ("parsers.TimePointParser.get_time_info", "time"),
                    ("parsers.TimePointParser.get_time_zone_info", "zone")):
        f = ctx.try_func(q)
        if f is None:
            continue
        rep.anchor(rule, "form lookup functions")
        # the string looked up: what the regexes are matched against
        snames = set()
        for n in walk_no_nested(f.node):
            if isinstance(n, ast.Call) and isinstance(
                    n.func, ast.Attribute) and n.func.attr in (
                        "match", "search", "fullmatch") and n.args and \
                    isinstance(n.args[0], ast.Name) and \
                    n.args[0].id in f.params:
                snames.add(n.args[0].id)
        if len(snames) != 1:
            rep.undecided(rule, ctx.fkey(f, None, "refusals"), f.loc(),
                          "%s: the looked-up string is not a single "
                          "parameter handed to the regular expressions" %
                          f.qual, P)
            continue
        sname = next(iter(snames))
        n_text = 0
        for r in walk_no_nested(f.node):
            if not isinstance(r, ast.Raise):
                continue
            conds = path_conds(r)
            atoms = _atoms_of(conds)
            mentions = [t for t, _ in conds if any(
                isinstance(x, ast.Name) and x.id == sname
                for x in ast.walk(t))]
            if not mentions:
                continue
            n_text += 1
            key = ctx.fkey(f, r, "textual")
            if atoms is None:
                rep.undecided(rule, key, f.loc(r),
                              "refusal under a disjunction involving the "
                              "text (%s): not split" % U(mentions[0])[:60],
                              P)
                continue
            text, fmts, no_trunc, other = [], None, False, []
            for t, pol in atoms:
                if any(isinstance(x, ast.Name) and x.id == sname
                       for x in ast.walk(t)):
                    text.append((t, pol))
                elif isinstance(t, ast.Attribute) and \
                        t.attr == "allow_only_basic":
                    fmts = {"basic"} if pol else None
                elif isinstance(t, ast.Attribute) and \
                        t.attr == "allow_truncated":
                    no_trunc = not pol
                else:
                    other.append(U(t))
            shape = _text_atom_shape(text[0][0], text[0][1], sname) \
                if len(text) == 1 else None
            if shape is None or other:
                rep.undecided(
                    rule, key, f.loc(r),
                    "refusal on a property of the text this rule does not "
                    "read (%s%s)" % (
                        " and ".join(("" if pl else "not ") + U(t)[:40]
                                     for t, pl in text),
                        ("; further conditions " + ", ".join(other)[:80])
                        if other else ""), P)
                continue
            hit = None
            for n_ in (0, 2):
                if n_ not in forms_by_n:
                    forms_by_n[n_] = _forms(T, n_)
                for fmt, typ, expr, rx in forms_by_n[n_][kind]:
                    if fmts is not None and fmt not in fmts:
                        continue
                    if no_trunc and typ == "truncated":
                        continue
                    try:
                        items, _g = shape_of(rx)
                    except ValueError:
                        continue
                    if shapes_intersect(items, shape):
                        hit = (fmt, typ, expr)
                        break
                if hit:
                    break
            rep.check(
                hit is None, rule, key, f.loc(r),
                "the strings refused for `%s` match none of the %s forms "
                "the tables hold for that configuration" % (
                    U(text[0][0])[:50], kind),
                "%s refuses every %s string with `%s`%s before consulting "
                "the tables, but the %s %s form %s matches such strings: a "
                "documented form is no longer parsed" % (
                    f.qual, kind, U(text[0][0])[:50],
                    " (basic-only parsers)" if fmts else "",
                    hit and hit[0], hit and hit[1], hit and hit[2]), P)
        if not n_text:
            rep.ok(rule, ctx.fkey(f, None, "refusals"), f.loc(),
                   "%s refuses a string only after the table lookup (no "
                   "refusal conditioned on the text itself)" % f.qual, P)


RULES["R58"] = r58_textual_refusal


# ------------------------------------------------------------------- R59
class _KeyFlow:
    """Where can a lookup key come from?  A small inter-procedural def-use
    walk inside one class: -> set of ("map", attr) - a key obtained by
    iterating self.<attr>; ("const", value); ("?", text)."""

    def __init__(self, ctx, cls):
        self.ctx, self.cls = ctx, cls
        self.seen = set()

    def _map_iter(self, it):
        """self.M / self.M.items() / .keys() / list(self.M) -> M"""
        e = it
        if isinstance(e, ast.Call) and isinstance(e.func, ast.Name) and \
                e.func.id in ("list", "sorted", "tuple", "iter", "set") and \
                len(e.args) == 1:
            e = e.args[0]
        if isinstance(e, ast.Call) and isinstance(
                e.func, ast.Attribute) and e.func.attr in (
                    "items", "keys") and not e.args:
            e = e.func.value
        if isinstance(e, ast.Attribute) and isinstance(
                e.value, ast.Name) and e.value.id == "self":
            return e.attr
        return None

    def value(self, g, e, path=(), depth=0):
        """sources of the value of expression e (after applying the index
        path) in function g"""
        k = (g.qual, id(e), path)
        if depth > 8 or k in self.seen:
            return set()
        self.seen.add(k)
        if isinstance(e, ast.Constant) and not path:
            return {("const", e.value)}
        if isinstance(e, (ast.Tuple, ast.List)) and path:
            i = path[0]
            if isinstance(i, int) and i < len(e.elts):
                return self.value(g, e.elts[i], path[1:], depth + 1)
            return {("?", U(e)[:40])}
        if isinstance(e, ast.Subscript) and isinstance(
                e.slice, ast.Constant) and isinstance(e.slice.value, int):
            return self.value(g, e.value, (e.slice.value,) + tuple(path),
                              depth + 1)
        if isinstance(e, ast.Call) and isinstance(
                e.func, ast.Attribute) and isinstance(
                    e.func.value, ast.Name) and e.func.value.id == "self" \
                and e.func.attr in self.cls.methods and path:
            h = self.cls.methods[e.func.attr]
            out = set()
            for r in walk_no_nested(h.node):
                if isinstance(r, ast.Return) and r.value is not None:
                    out |= self.value(h, r.value, path, depth + 1)
            return out or {("?", U(e)[:40])}
        if isinstance(e, ast.Name):
            return self.name(g, e.id, path, depth + 1)
        return {("?", U(e)[:40])}

    def name(self, g, nm, path, depth):
        out = set()
        found = False
        for n in walk_no_nested(g.node):
            if isinstance(n, ast.For):
                # the loop variable (or the first of an items() pair)
                t = n.target
                idx = None
                if isinstance(t, ast.Name) and t.id == nm:
                    idx = ()
                elif isinstance(t, ast.Tuple):
                    for i, x in enumerate(t.elts):
                        if isinstance(x, ast.Name) and x.id == nm:
                            idx = (i,)
                if idx is None:
                    continue
                found = True
                m = self._map_iter(n.iter)
                if m is not None and U(n.iter).endswith(".items()"):
                    if idx == (0,) and not path:
                        out.add(("map", m))
                    else:
                        out.add(("?", "value of self.%s" % m))
                elif m is not None and idx == () and not path:
                    out.add(("map", m))
                else:
                    out |= self.elem(g, n.iter, idx + tuple(path), depth + 1)
            elif isinstance(n, ast.Assign):
                for t in n.targets:
                    if isinstance(t, ast.Name) and t.id == nm:
                        found = True
                        v = n.value
                        todo = [v]
                        while todo:
                            x = todo.pop()
                            if isinstance(x, ast.IfExp):
                                todo += [x.body, x.orelse]
                            else:
                                out |= self.value(g, x, tuple(path),
                                                  depth + 1)
                    elif isinstance(t, (ast.Tuple, ast.List)):
                        for i, x in enumerate(t.elts):
                            if isinstance(x, ast.Name) and x.id == nm:
                                found = True
                                out |= self.value(g, n.value,
                                                  (i,) + tuple(path),
                                                  depth + 1)
        if nm in g.call_params:
            found = True
            d = g.defaults.get(nm)
            if d is not None and not (isinstance(d, ast.Constant) and
                                      d.value is None):
                out |= self.value(g, d, tuple(path), depth + 1)
            for q, e in self.ctx.res.callers_of(g.qual):
                if e.kind != "call":
                    continue
                caller = self.ctx.model.functions.get(q)
                if caller is None:
                    continue
                b = self.ctx.bound_args(caller, e.node)
                if nm in b:
                    out |= self.value(caller, b[nm], tuple(path), depth + 1)
        if not found:
            out.add(("?", nm))
        return out

    def elem(self, g, it, path, depth):
        """sources of the elements of the iterable `it`"""
        m = self._map_iter(it)
        if m is not None and not path:
            return {("map", m)}
        if isinstance(it, (ast.List, ast.Tuple)):
            out = set()
            for x in it.elts:
                out |= self.value(g, x, tuple(path), depth + 1)
            return out
        if isinstance(it, ast.Name):
            out = set()
            found = False
            for n in walk_no_nested(g.node):
                if isinstance(n, ast.Assign) and any(
                        isinstance(t, ast.Name) and t.id == it.id
                        for t in n.targets):
                    found = True
                    out |= self.elem(g, n.value, path, depth + 1)
            if it.id in g.call_params:
                found = True
                for q, e in self.ctx.res.callers_of(g.qual):
                    if e.kind != "call":
                        continue
                    caller = self.ctx.model.functions.get(q)
                    if caller is None:
                        continue
                    b = self.ctx.bound_args(caller, e.node)
                    if it.id in b and not (isinstance(
                            b[it.id], ast.Constant) and
                            b[it.id].value is None):
                        out |= self.elem(caller, b[it.id], path, depth + 1)
            if found:
                return out
        return {("?", U(it)[:40])}


def r59_conditional_keys(ctx):
    """A mapping whose key set depends on the configuration (the regex maps
    of a basic-only parser have no "extended" entry) is read by subscript
    only with keys that are known to be present: keys obtained by iterating
    a map built by the same builder loop, constants every configuration
    provides, or under a membership guard / KeyError handler.  Anything
    else lets a KeyError - not derived from ValueError - escape from
    parse()."""
    rep = ctx.rep
    rule = "R59.conditional-keys"
    P = ("C09", "C07")
    rep.need_anchor(rule, "configuration-dependent maps")
    from ..flow import alternatives, path_conds
    n_maps = 0
    for cname in ("TimePointParser", "DurationParser",
                  "TimeRecurrenceParser", "TimePointDumper"):
        if not ctx.model.has_cls(cname):
            continue
        cls = ctx.model.cls(cname)
        fam = {}        # map attr -> (builder, guaranteed keys, all keys)
        for name, b in cls.methods.items():
            for lp in walk_no_nested(b.node):
                if not (isinstance(lp, ast.For) and isinstance(
                        lp.target, ast.Name) and isinstance(
                            lp.iter, ast.Name)):
                    continue
                alts = alternatives(b.node, lp.iter.id)
                if not alts or len(alts) < 2 or not all(
                        isinstance(v, (ast.List, ast.Tuple)) and all(
                            isinstance(x, ast.Constant) for x in v.elts)
                        for v, _ in alts):
                    continue
                sets = [frozenset(x.value for x in v.elts) for v, _ in alts]
                if len(set(sets)) < 2:
                    continue
                kv = lp.target.id
                for n in ast.walk(lp):
                    m = None
                    if isinstance(n, ast.Call) and isinstance(
                            n.func, ast.Attribute) and \
                            n.func.attr == "setdefault" and n.args and \
                            isinstance(n.args[0], ast.Name) and \
                            n.args[0].id == kv and isinstance(
                                n.func.value, ast.Attribute) and \
                            U(n.func.value.value) == "self":
                        m = n.func.value.attr
                    elif isinstance(n, ast.Subscript) and isinstance(
                            n.ctx, ast.Store) and isinstance(
                                n.slice, ast.Name) and n.slice.id == kv and \
                            isinstance(n.value, ast.Attribute) and \
                            U(n.value.value) == "self":
                        m = n.value.attr
                    if m is not None:
                        fam[m] = (b, frozenset.intersection(*sets),
                                  frozenset.union(*sets), id(lp))
        if not fam:
            continue
        n_maps += len(fam)
        rep.anchor(rule, "configuration-dependent maps")
        kf = _KeyFlow(ctx, cls)
        sites = 0
        for name, g in sorted(cls.methods.items()):
            for n in walk_no_nested(g.node):
                if not (isinstance(n, ast.Subscript) and isinstance(
                        n.ctx, ast.Load) and isinstance(
                            n.value, ast.Attribute) and
                        U(n.value.value) == "self" and
                        n.value.attr in fam):
                    continue
                b, sure, every, loop_id = fam[n.value.attr]
                if g is b:
                    continue
                sites += 1
                key = ctx.fkey(g, n, "key")
                # guards
                guarded = False
                q = parent(n)
                while q is not None and q is not g.node:
                    if isinstance(q, ast.Try) and any(
                            h.type is None or any(
                                nm in U(h.type) for nm in (
                                    "KeyError", "LookupError", "Exception"))
                            for h in q.handlers) and any(
                                n in ast.walk(st) for st in q.body):
                        guarded = True
                    q = parent(q)
                for t, pol in path_conds(n):
                    if pol and isinstance(t, ast.Compare) and len(
                            t.ops) == 1 and isinstance(
                                t.ops[0], ast.In) and U(t.left) == U(
                                    n.slice) and U(
                                        t.comparators[0]) == U(n.value):
                        guarded = True
                if guarded:
                    rep.ok(rule, key, g.loc(n),
                           "%s is read under a membership guard / KeyError "
                           "handler" % U(n), P)
                    continue
                srcs = kf.value(g, n.slice)
                bad, unknown = [], []
                for kind, v in sorted(srcs, key=repr):
                    if kind == "map":
                        if v not in fam or fam[v][3] != loop_id:
                            unknown.append("keys of self.%s" % v)
                    elif kind == "const":
                        if v not in sure:
                            bad.append(v)
                    else:
                        unknown.append(v)
                if bad:
                    rep.violation(
                        rule, key, g.loc(n),
                        "%s reads %s with a key that can be %s, but self.%s "
                        "holds only %s in some configurations (built in %s "
                        "from a list that depends on the configuration): "
                        "the lookup raises KeyError - not a ValueError - out "
                        "of the parser" % (
                            g.qual, U(n), sorted(map(repr, bad)),
                            n.value.attr, sorted(sure), b.name), P)
                elif unknown or not srcs:
                    rep.undecided(
                        rule, key, g.loc(n),
                        "%s: the origin of the key (%s) is not followed to "
                        "its end" % (U(n), ", ".join(unknown)[:100]), P)
                else:
                    rep.ok(rule, key, g.loc(n),
                           "%s is keyed by keys of a map built by the same "
                           "loop, or by constants every configuration "
                           "provides" % U(n), P)
        if not sites:
            rep.ok(rule, ctx.mkey("parsers", "%s:no-keyed-reads" % cname),
                   "-", "the configuration-dependent maps %s of %s are read "
                   "only by iteration outside their builder" % (
                       sorted(fam), cname), P)
    if not n_maps:
        rep.undecided(rule, ctx.mkey("parsers", "conditional-maps"), "-",
                      "no instance map is populated from a key list that "
                      "depends on the configuration", P)
        rep.anchor(rule, "configuration-dependent maps")


RULES["R59"] = r59_conditional_keys


# ------------------------------------------------------------------- R60
def r60_single_conversion(ctx):
    """A decimal numeral is turned into a number by ONE conversion of the
    whole matched text (after the decimal comma became a point), then
    signed.  A value assembled from separately converted pieces
    (float(whole) + float("0." + fraction)) is rounded twice and differs
    from the numeral's float in the last place, so parse(str(d)) != d."""
    rep = ctx.rep
    rule = "R60.single-conversion"
    P = ("C10",)
    rep.need_anchor(rule, "numeral conversions of DurationParser.parse")
    f = ctx.func("parsers.DurationParser.parse")
    from ..dtable import explore
    loops = [n for n in walk_no_nested(f.node) if isinstance(n, ast.For)
             and isinstance(n.target, ast.Tuple) and len(n.target.elts) == 2
             and "items()" in U(n.iter)]
    rep.anchor(rule, "numeral conversions of DurationParser.parse")
    if not loops:
        rep.undecided(rule, ctx.fkey(f, None, "numerals"), f.loc(),
                      "DurationParser.parse does not convert its captures in "
                      "a loop over the group dictionary", P)
        return

    def text_ok(e, vname):
        while isinstance(e, ast.Call) and isinstance(
                e.func, ast.Attribute) and e.func.attr in (
                    "replace", "strip", "lstrip", "rstrip"):
            e = e.func.value
        return isinstance(e, ast.Name) and e.id == vname

    def classify(e, vname):
        """'ok' | 'pieces' | 'other'"""
        if isinstance(e, ast.UnaryOp) and isinstance(
                e.op, (ast.USub, ast.UAdd)):
            return classify(e.operand, vname)
        if isinstance(e, ast.BinOp) and isinstance(e.op, ast.Mult):
            a, b = classify(e.left, vname), classify(e.right, vname)
            if "pieces" in (a, b):
                return "pieces"
            sides = [(a, e.right), (b, e.left)]
            for c, other in sides:
                if c == "ok" and not any(
                        isinstance(x, ast.Call) for x in ast.walk(other)):
                    return "ok"
            return "other"
        if isinstance(e, ast.Call) and isinstance(e.func, ast.Name) and \
                e.func.id in ("int", "float") and len(e.args) == 1:
            return "ok" if text_ok(e.args[0], vname) else "other"
        convs = [x for x in ast.walk(e) if isinstance(x, ast.Call) and
                 isinstance(x.func, ast.Name) and
                 x.func.id in ("int", "float", "Decimal")]
        if len(convs) >= 2 or (convs and any(
                isinstance(x, ast.BinOp) and isinstance(
                    x.op, (ast.Add, ast.Sub, ast.Div)) for x in ast.walk(e))):
            return "pieces"
        return "other"
    for lp in loops:
        kname = U(lp.target.elts[0])
        vname = U(lp.target.elts[1])
        try:
            paths = explore(lp.body)
        except AnalysisError:
            paths = []
        stores = []
        for p in paths:
            for k, v in p.env.items():
                if k.startswith("@") and k.endswith("[%s]" % kname):
                    stores.append((p, v))
        if not stores:
            rep.undecided(rule, ctx.fkey(f, lp, "numerals"), f.loc(lp),
                          "no keyed store of the converted value found in "
                          "the loop over the captures", P)
            continue
        kinds = {}
        for p, v in stores:
            kinds.setdefault(classify(v, vname), []).append(U(v)[:90])
        if "pieces" in kinds:
            rep.violation(
                rule, ctx.fkey(f, lp, "numerals"), f.loc(lp),
                "DurationParser.parse builds a component from separately "
                "converted pieces of the numeral (%s): the pieces are "
                "rounded on their own, so the result differs from the "
                "numeral's float in the last place for some values (1,14) "
                "and the round trip through text fails" %
                kinds["pieces"][0], P)
        elif "other" in kinds:
            rep.undecided(rule, ctx.fkey(f, lp, "numerals"), f.loc(lp),
                          "a component is computed as %s: not the "
                          "int()/float() of the matched text this rule "
                          "reads" % kinds["other"][0], P)
        else:
            rep.ok(rule, ctx.fkey(f, lp, "numerals"), f.loc(lp),
                   "every component is one int()/float() conversion of the "
                   "whole matched text, times the sign (%d store paths)" %
                   len(stores), P)


RULES["R60"] = r60_single_conversion


# ------------------------------------------------------------------- R61
def _order_graph(decisions, extra_true=()):
    """Decisions over `a < b` atoms -> {(a, b): strict?} meaning a <= b."""
    edges = {}

    def add(a, b, strict):
        edges[(a, b)] = edges.get((a, b), False) or strict
    unknown = []
    items = [(a, v) for a, v in decisions.items()] + [
        (a, True) for a in extra_true]
    for atom, val in items:
        try:
            e = ast.parse(atom, mode="eval").body
        except SyntaxError:
            unknown.append(atom)
            continue
        if isinstance(e, ast.Compare) and len(e.ops) >= 1 and all(
                isinstance(o, (ast.Lt, ast.LtE, ast.Gt, ast.GtE))
                for o in e.ops):
            ops = [e.left] + list(e.comparators)
            if len(e.ops) > 1 and not val:
                unknown.append(atom)
                continue
            for i, o in enumerate(e.ops):
                a, b = U(ops[i]), U(ops[i + 1])
                if isinstance(o, (ast.Gt, ast.GtE)):
                    a, b = b, a
                strict = isinstance(o, (ast.Lt, ast.Gt))
                if val:
                    add(a, b, strict)
                else:
                    add(b, a, not strict)
        elif isinstance(e, ast.Compare) and len(e.ops) == 1 and isinstance(
                e.ops[0], (ast.Is, ast.IsNot, ast.Eq, ast.NotEq)):
            if isinstance(e.ops[0], ast.Eq) and val:
                add(U(e.left), U(e.comparators[0]), False)
                add(U(e.comparators[0]), U(e.left), False)
        else:
            unknown.append(atom)
    # max()/min() terms
    nodes = {x for ab in edges for x in ab}
    for t in list(nodes):
        try:
            e = ast.parse(t, mode="eval").body
        except SyntaxError:
            continue
        if isinstance(e, ast.Call) and isinstance(e.func, ast.Name) and \
                e.func.id in ("max", "min") and len(e.args) >= 2 and \
                not e.keywords:
            for a in e.args:
                if e.func.id == "max":
                    add(U(a), t, False)
                else:
                    add(t, U(a), False)
    return edges, unknown


def _reaches(edges, src, dst, need_strict=False):
    todo = [(src, False)]
    seen = set()
    while todo:
        x, s = todo.pop()
        if x == dst and (s or not need_strict):
            return True
        if (x, s) in seen:
            continue
        seen.add((x, s))
        for (a, b), st in edges.items():
            if a == x:
                todo.append((b, s or st))
    return False


def r61_in_bounds(ctx):
    """A point is within a recurrence's bounds only if it is not before the
    start point, not before the minimum point, not after the end point and
    not after the maximum point - each of those that is set.  On every path
    of TimeRecurrence._get_is_in_bounds that answers True, each of the four
    bounds is absent (`is None`) or ordered against the point by the
    comparisons decided on that path (transitively: an 'effective bound'
    max(start, min) is fine, min(start, min) is not)."""
    rep = ctx.rep
    rule = "R61.in-bounds"
    P = ("C13", "C12")
    rep.need_anchor(rule, "TimeRecurrence._get_is_in_bounds")
    f = ctx.try_func("data.TimeRecurrence._get_is_in_bounds")
    if f is None:
        raise AnalysisError("TimeRecurrence._get_is_in_bounds not found")
    rep.anchor(rule, "TimeRecurrence._get_is_in_bounds")
    from ..dtable import explore
    sn = f.self_name
    tp = f.params[1] if len(f.params) > 1 else None
    slots = ctx.folder.need_class_const(ctx.model.cls("TimeRecurrence"),
                                        "__slots__")
    lowers = [s for s in ("_start_point", "_min_point") if s in slots]
    uppers = [s for s in ("_end_point", "_max_point") if s in slots]
    key = ctx.fkey(f, None, "bounds")
    if tp is None or len(lowers) + len(uppers) < 4:
        rep.undecided(rule, key, f.loc(), "the four bound slots / the point "
                      "parameter were not found", P)
        return
    from ..model import clone

    class _Boolify(ast.NodeTransformer):
        def visit_Return(self, node):
            if node.value is None or isinstance(node.value, ast.Constant):
                return node
            return ast.copy_location(ast.If(
                test=node.value,
                body=[ast.Return(value=ast.Constant(value=True))],
                orelse=[ast.Return(value=ast.Constant(value=False))]), node)

        def visit_FunctionDef(self, node):
            return node
    body = [ast.fix_missing_locations(_Boolify().visit(clone(st)))
            for st in f.node.body]
    try:
        paths = explore(body)
    except AnalysisError as exc:
        rep.undecided(rule, key, f.loc(), "not tabulated: %s" % exc, P)
        return
    bad, unsure = [], []
    n_true = 0
    for p in paths:
        if p.outcome != "return" or p.value is None:
            continue
        v = p.value
        extra = []
        if isinstance(v, ast.Constant):
            if not v.value:
                continue
        elif isinstance(v, ast.Compare):
            extra = [U(v)]
        elif isinstance(v, ast.BoolOp) and isinstance(v.op, ast.And) and all(
                isinstance(x, ast.Compare) for x in v.values):
            extra = [U(x) for x in v.values]
        else:
            unsure.append("returns %s" % U(v)[:60])
            continue
        n_true += 1
        edges, unknown = _order_graph(p.decisions, extra)

        def absent(slot):
            return p.decisions.get("%s.%s is None" % (sn, slot)) is True
        miss = []
        for s in lowers:
            if not (absent(s) or _reaches(edges, "%s.%s" % (sn, s), tp)):
                miss.append("%s <= %s" % (s, tp))
        for s in uppers:
            if not (absent(s) or _reaches(edges, tp, "%s.%s" % (sn, s))):
                miss.append("%s <= %s" % (tp, s))
        if miss:
            (unsure if (unknown or p.skipped) else bad).append(
                "answers True without %s when %s" % (
                    " / ".join(miss), p.when()[:200]))
    if bad:
        rep.violation(rule, key, f.loc(),
                      "TimeRecurrence._get_is_in_bounds %s: a point outside "
                      "one of the bounds is taken for a member (get_prev / "
                      "get_first_after return non-members)" % bad[0], P)
    elif unsure or not n_true:
        rep.undecided(rule, key, f.loc(),
                      "_get_is_in_bounds: %s" % (
                          unsure[0] if unsure else "no True answer found"), P)
    else:
        rep.ok(rule, key, f.loc(),
               "on all %d paths answering True every set bound (start, min, "
               "end, max) is ordered against the point" % n_true, P)


RULES["R61"] = r61_in_bounds


# ------------------------------------------------------------------- R62
def r62_leap_day_size(ctx):
    """The leap rule (divisible by 4, not by 100, by 400) is the same in
    every calendar mode; what differs is how many days a leap year adds
    (DAYS_IN_YEAR_LEAP - DAYS_IN_YEAR: 1 in the Gregorian calendar, 0 in
    the 360/365/366-day ones).  Code that counts leap years by walking
    LEAP_YEAR_FACTOR_TRUTHS and turns the count into days therefore scales
    every such correction by the calendar's leap-day size - a bare count
    adds Gregorian leap days to the fixed-length calendars."""
    rep = ctx.rep
    rule = "R62.leap-day-size"
    P = ("C15", "C04", "C18", "C03")
    rep.need_anchor(rule, "leap-count accumulations")
    from ..flow import alternatives
    n_sites = 0
    for f in ctx.model.all_functions():
        if f.module.name != "data" or f.cls is not None:
            continue
        loops = [n for n in walk_no_nested(f.node) if isinstance(n, ast.For)
                 and "LEAP_YEAR_FACTOR_TRUTHS" in U(n.iter)]
        if not loops:
            continue
        returned = {r.value.id for r in walk_no_nested(f.node)
                    if isinstance(r, ast.Return) and isinstance(
                        r.value, ast.Name)}

        def mentions_leap_size(e, depth=0):
            for x in ast.walk(e):
                if isinstance(x, ast.Attribute) and x.attr.endswith("_LEAP"):
                    return True
                if isinstance(x, ast.Call) and U(x.func).lstrip(
                        "_").startswith(("get_days_in_year",
                                         "get_days_in_month")):
                    return True
                if isinstance(x, ast.Name) and depth < 3:
                    alts = alternatives(f.node, x.id)
                    if alts and any(mentions_leap_size(v, depth + 1)
                                    for v, _ in alts):
                        return True
            return False
        for lp in loops:
            for n in ast.walk(lp):
                if not (isinstance(n, ast.AugAssign) and isinstance(
                        n.target, ast.Name) and n.target.id in returned and
                        isinstance(n.op, (ast.Add, ast.Sub))):
                    continue
                n_sites += 1
                rep.anchor(rule, "leap-count accumulations")
                rep.check(
                    mentions_leap_size(n.value), rule,
                    ctx.fkey(f, n, "scaled"), f.loc(n),
                    "the correction `%s` is scaled by the calendar's "
                    "leap-day size" % U(n),
                    "%s corrects its day count by `%s` inside the walk over "
                    "the leap-rule factors without the calendar's leap-day "
                    "size (DAYS_IN_YEAR_LEAP - DAYS_IN_YEAR): one day per "
                    "Gregorian leap year is added in the 360/365/366-day "
                    "calendars as well" % (f.qual, U(n)), P)
    if not n_sites:
        rep.anchor(rule, "leap-count accumulations")
        rep.undecided(rule, ctx.mkey("data", "leap-count-accumulations"),
                      "-", "no function turns a walk over "
                      "LEAP_YEAR_FACTOR_TRUTHS into a day count", P)


RULES["R62"] = r62_leap_day_size


# ------------------------------------------------------------------- R63
def r63_year_of_representation(ctx):
    """The stored year of a TimePoint is the calendar year in calendar and
    ordinal form, but the ISO week-year in week form; the month / day /
    week properties convert on the fly, the year property does not.  Code
    outside the data model that reads the year of a point together with its
    month or day of month (or with its week / weekday) therefore reads them
    from a point known to be in the matching form - converted with
    to_calendar_date() / to_week_date(), or under a get_is_*_date()
    guard."""
    rep = ctx.rep
    rule = "R63.year-of-representation"
    P = ("C19", "C17", "C08")
    rep.need_anchor(rule, "functions outside the data model")
    from ..flow import alternatives, path_conds
    YEAR = {"year", "_year"}
    CAL = {"month_of_year", "day_of_month", "_month_of_year",
           "_day_of_month"}
    WEEK = {"week_of_year", "day_of_week", "_week_of_year", "_day_of_week"}
    n_f = n_sites = 0
    for f in ctx.model.all_functions():
        if f.module.name in ("data", "parser_spec", "timezone"):
            continue
        n_f += 1
        reads = {}
        for n in walk_no_nested(f.node):
            if isinstance(n, ast.Attribute) and isinstance(
                    n.ctx, ast.Load) and isinstance(n.value, ast.Name) and \
                    n.attr in YEAR | CAL | WEEK and \
                    "TimePoint" in ctx.types_in(f, n.value):
                reads.setdefault(n.value.id, []).append(n)
        for base, nodes in sorted(reads.items()):
            attrs = {n.attr for n in nodes}
            if not (attrs & YEAR):
                continue
            for group, conv, guard, what in (
                    (CAL, ("to_calendar_date", "to_ordinal_date"),
                     ("get_is_calendar_date", "get_is_ordinal_date"),
                     "month / day of month"),
                    (WEEK, ("to_week_date",), ("get_is_week_date",),
                     "week / weekday")):
                if not (attrs & group):
                    continue
                n_sites += 1
                ynode = [n for n in nodes if n.attr in YEAR][0]
                alts = alternatives(f.node, base)
                converted = bool(alts) and all(
                    isinstance(v, ast.Call) and isinstance(
                        v.func, ast.Attribute) and v.func.attr in conv
                    for v, _ in alts) and base not in f.params
                guarded = any(
                    isinstance(t, ast.Call) and isinstance(
                        t.func, ast.Attribute) and U(t.func.value) == base
                    and ((t.func.attr in guard and pol) or (
                        group is CAL and t.func.attr == "get_is_week_date"
                        and not pol))
                    for t, pol in path_conds(ynode))
                rep.check(
                    converted or guarded, rule,
                    ctx.fkey(f, None, "year-with-%s:%s" % (
                        "calendar" if group is CAL else "week", base)),
                    f.loc(ynode),
                    "%s is in the matching form where its year is read with "
                    "its %s" % (base, what),
                    "%s reads %s.%s together with the %s of the same point "
                    "(%s), but `%s` is in whatever form it was written in: "
                    "for a week date the year is the ISO week-year while "
                    "the month and day are converted, so dates in the first "
                    "or last days of a year come out a year off" % (
                        f.qual, base, ynode.attr, what,
                        sorted(attrs & group), base), P)
    rep.anchor(rule, "functions outside the data model")
    if not n_sites:
        rep.ok(rule, "package:year-reads-outside-data-model", "-",
               "no function outside the data model (%d looked at) reads the "
               "raw year of a point together with converting month/day/week "
               "properties" % n_f, P)


RULES["R63"] = r63_year_of_representation


# ------------------------------------------------------------------- R64
def r64_year_gap_correction(ctx):
    """A week-year begins in the calendar year before it or in its own
    calendar year, and a calendar date belongs to the previous, the same or
    the next week-year: the start of the week-year a date belongs to can
    therefore lie TWO calendar years before the date's own year (1 January
    2021 belongs to 2020-W53, which began on 30 December 2019).  A day
    count from that start to the date, written in closed form, has to add
    the length of every year in between; a single `+= get_days_in_year
    (start_year)` under `start_year < year` covers one."""
    rep = ctx.rep
    rule = "R64.year-gap"
    P = ("C03", "C08", "C15")
    rep.need_anchor(rule, "week-year start arithmetic")
    from ..flow import alternatives
    n_sites = 0

    def year_offsets(f, e, param, depth=0):
        """possible values of e - param, or None"""
        if isinstance(e, ast.Name):
            if e.id == param:
                return {0}
            if depth > 3:
                return None
            alts = alternatives(f.node, e.id)
            if not alts:
                return None
            out = set()
            for v, _ in alts:
                o = year_offsets(f, v, param, depth + 1)
                if o is None:
                    return None
                out |= o
            return out
        if isinstance(e, ast.BinOp) and isinstance(
                e.op, (ast.Add, ast.Sub)) and isinstance(
                    e.right, ast.Constant) and isinstance(
                        e.right.value, int):
            o = year_offsets(f, e.left, param, depth + 1)
            if o is None:
                return None
            k = e.right.value if isinstance(e.op, ast.Add) else \
                -e.right.value
            return {x + k for x in o}
        return None
    for f in ctx.model.all_functions():
        if f.module.name != "data" or f.cls is not None or not f.params:
            continue
        # year variables unpacked from a week-year start
        starts = {}
        for n in walk_no_nested(f.node):
            if isinstance(n, ast.Assign) and len(n.targets) == 1 and \
                    isinstance(n.targets[0], ast.Tuple) and \
                    n.targets[0].elts and isinstance(
                        n.targets[0].elts[0], ast.Name) and isinstance(
                            n.value, ast.Call) and any(
                                q.split(".")[-1].lstrip("_").endswith(
                                    "week_date_start")
                                for q in callee_quals(ctx, f, n.value)) and \
                    n.value.args:
                starts[n.targets[0].elts[0].id] = n.value.args[0]
        if not starts:
            continue
        for n in walk_no_nested(f.node):
            if not (isinstance(n, ast.If) and isinstance(
                    n.test, ast.Compare) and len(n.test.ops) == 1):
                continue
            a, b = n.test.left, n.test.comparators[0]
            op = n.test.ops[0]
            if isinstance(op, (ast.Gt, ast.GtE)):
                a, b = b, a
            elif not isinstance(op, (ast.Lt, ast.LtE, ast.NotEq)):
                continue
            if not (isinstance(a, ast.Name) and a.id in starts and
                    isinstance(b, ast.Name) and b.id in f.params):
                continue
            terms = [x for st in n.body for x in ast.walk(st)
                     if isinstance(x, ast.Call) and U(x.func).lstrip(
                         "_") == "get_days_in_year"]
            loops = any(isinstance(x, (ast.For, ast.While)) or (
                isinstance(x, ast.Call) and "range" in U(x.func))
                for st in n.body for x in ast.walk(st))
            if not terms or loops:
                continue
            n_sites += 1
            rep.anchor(rule, "week-year start arithmetic")
            key = ctx.fkey(f, n, "gap")
            offs = year_offsets(f, starts[a.id], b.id)
            if offs is None:
                rep.undecided(rule, key, f.loc(n),
                              "the week-year whose start is taken (%s) is "
                              "not of the year+-k form" % U(starts[a.id]), P)
                continue
            gap = 1 - min(offs)
            rep.check(
                gap <= len(terms), rule, key, f.loc(n),
                "the start of week-year %s lies at most %d calendar year(s) "
                "before %s, and %d year length(s) are added" % (
                    U(starts[a.id]), gap, b.id, len(terms)),
                "%s adds the length of %d year under `%s`, but %s is the "
                "calendar year in which week-year %s (%s%+d at the least) "
                "begins - up to %d calendar years before %s (1 January 2021 "
                "belongs to 2020-W53, which began in 2019): for the first "
                "days of January after a 53-week year the day count is a "
                "year short" % (f.qual, len(terms), U(n.test), a.id,
                                U(starts[a.id]), b.id, min(offs), gap, b.id),
                P)
    rep.anchor(rule, "week-year start arithmetic")
    if not n_sites:
        rep.ok(rule, "data.py:no-closed-form-year-gap", "-",
               "no closed-form correction by single year lengths between a "
               "week-year start and a calendar year (the conversions walk "
               "the days)", P, nontrivial=False)


RULES["R64"] = r64_year_gap_correction


# ------------------------------------------------------------------- R65
def r65_one_based_remainder(ctx):
    """Days of a month / of a year and months count from 1.  Where a
    conversion helper peels whole months (or years) off a 1-based count
    that it then returns as the day (or month), the count is reduced by a
    length L only where `count > L` held - strictly: with `count >= L` the
    last day of a month becomes day 0 of the next.  The same holds for a
    right-bisection into cumulative month ends (`bisect(ends, d)` sends
    d == end to the next month; `bisect_left` is the one that keeps it)."""
    rep = ctx.rep
    rule = "R65.one-based-remainder"
    P = ("C03", "C02", "C08", "C15")
    rep.need_anchor(rule, "conversion helpers")
    from ..flow import path_conds
    n_f = n_sites = 0
    for f in ctx.model.all_functions():
        if f.module.name != "data" or f.cls is not None or \
                "date" not in f.name:
            continue
        n_f += 1
        # names returned as a 1-based component (not the year)
        one_based = set()
        for r in walk_no_nested(f.node):
            if isinstance(r, ast.Return) and isinstance(
                    r.value, ast.Tuple) and len(r.value.elts) in (2, 3):
                for e in r.value.elts[1:]:
                    if isinstance(e, ast.Name):
                        one_based.add(e.id)
            elif isinstance(r, ast.Return) and isinstance(
                    r.value, ast.Call) and "date" in U(r.value.func):
                for e in r.value.args[1:]:
                    if isinstance(e, ast.Name):
                        one_based.add(e.id)
        if not one_based:
            continue
        bis = {}        # index name -> (bisect flavour, array, key)
        for n in walk_no_nested(f.node):
            if isinstance(n, ast.Assign) and len(n.targets) == 1 and \
                    isinstance(n.targets[0], ast.Name) and isinstance(
                        n.value, ast.Call) and U(n.value.func).split(
                            ".")[-1] in ("bisect", "bisect_right",
                                         "bisect_left") and len(
                                             n.value.args) >= 2:
                bis[n.targets[0].id] = (U(n.value.func).split(".")[-1],
                                        U(n.value.args[0]),
                                        U(n.value.args[1]))
        for n in walk_no_nested(f.node):
            tgt = val = None
            if isinstance(n, ast.AugAssign) and isinstance(
                    n.op, ast.Sub) and isinstance(n.target, ast.Name):
                tgt, val, cur = n.target.id, n.value, n.target.id
            elif isinstance(n, ast.Assign) and len(n.targets) == 1 and \
                    isinstance(n.targets[0], ast.Name) and isinstance(
                        n.value, ast.BinOp) and isinstance(
                            n.value.op, ast.Sub) and isinstance(
                                n.value.left, ast.Name):
                tgt, val, cur = n.targets[0].id, n.value.right, \
                    n.value.left.id
            if tgt is None or tgt not in one_based:
                continue
            if isinstance(val, ast.Constant):
                continue
            n_sites += 1
            rep.anchor(rule, "conversion helpers")
            key = ctx.fkey(f, n, "peel")
            L = U(val)
            # right-bisection into cumulative ends
            m = re.fullmatch(r"(\w+)\[(\w+) - 1\]", L)
            if m and m.group(2) in bis and bis[m.group(2)][1] == m.group(1):
                flavour = bis[m.group(2)][0]
                rep.check(
                    flavour == "bisect_left", rule, key, f.loc(n),
                    "the count is reduced by the last cumulative end "
                    "strictly below it (bisect_left)",
                    "%s finds the month with %s(%s, %s) and returns `%s - "
                    "%s` as a 1-based day: a right-bisection sends a count "
                    "equal to a month end to the next month, with day 0 "
                    "(2023-031 -> 02-00)" % (f.qual, flavour, m.group(1),
                                             bis[m.group(2)][2], cur, L), P)
                continue
            strict = nonstrict = False
            for t, pol in path_conds(n):
                if not (isinstance(t, ast.Compare) and len(t.ops) == 1):
                    continue
                a, b, op = U(t.left), U(t.comparators[0]), type(t.ops[0])
                if {a, b} != {cur, L}:
                    continue
                if a == L:      # normalise to  cur OP L
                    op = {ast.Lt: ast.Gt, ast.Gt: ast.Lt, ast.LtE: ast.GtE,
                          ast.GtE: ast.LtE}.get(op, op)
                if not pol:
                    op = {ast.Lt: ast.GtE, ast.GtE: ast.Lt, ast.Gt: ast.LtE,
                          ast.LtE: ast.Gt}.get(op, op)
                if op is ast.Gt:
                    strict = True
                elif op is ast.GtE:
                    nonstrict = True
            if strict:
                rep.ok(rule, key, f.loc(n),
                       "`%s` is reduced by %s only where it exceeds it" % (
                           cur, L), P)
            elif nonstrict:
                rep.violation(
                    rule, key, f.loc(n),
                    "%s reduces the 1-based count `%s` by %s where only "
                    "`%s >= %s` is established: a count equal to the length "
                    "(the last day of the month / year) is carried into the "
                    "next period as its day 0" % (f.qual, cur, L, cur, L), P)
            else:
                rep.undecided(rule, key, f.loc(n),
                              "`%s -= %s`: no comparison of the two on the "
                              "path decides whether the remainder stays "
                              ">= 1" % (cur, L), P)
    rep.anchor(rule, "conversion helpers")
    if not n_sites:
        rep.ok(rule, "data.py:no-peeling-of-one-based-counts", "-",
               "no conversion helper (%d looked at) reduces a returned "
               "1-based count by a period length (they walk the days)" %
               n_f, P, nontrivial=False)


RULES["R65"] = r65_one_based_remainder


# ------------------------------------------------------------------- R66
def r66_year_length_radix(ctx):
    """Years differ in length, so the length of one year is not a radix: a
    day count divided (divmod, //, %) by get_days_in_year(y) or by
    DAYS_IN_YEAR[_LEAP] yields a right (years, day) pair only while the
    quotient stays below 2 - and a week-year reaches into a third calendar
    year.  Whole years are carried one at a time, each by its own length
    (or with get_days_in_year_range)."""
    rep = ctx.rep
    rule = "R66.year-length-radix"
    P = ("C03", "C17", "C08", "C04", "C15")
    rep.need_anchor(rule, "functions of data.py")
    from ..flow import alternatives
    n_f = 0
    bad = []

    def is_year_len(f, e, depth=0):
        if isinstance(e, ast.Call) and U(e.func).lstrip("_").startswith(
                "get_days_in_year") and "range" not in U(e.func):
            return True
        if isinstance(e, ast.Attribute) and e.attr in (
                "DAYS_IN_YEAR", "DAYS_IN_YEAR_LEAP"):
            return True
        if isinstance(e, ast.Name) and depth < 2:
            al = alternatives(f.node, e.id)
            return bool(al) and any(is_year_len(f, v, depth + 1)
                                    for v, _ in al)
        return False
    for f in ctx.model.all_functions():
        if f.module.name != "data":
            continue
        n_f += 1
        for n in walk_no_nested(f.node):
            div = None
            if isinstance(n, ast.Call) and U(n.func) == "divmod" and len(
                    n.args) == 2:
                div = n.args[1]
            elif isinstance(n, ast.BinOp) and isinstance(
                    n.op, (ast.FloorDiv, ast.Mod)):
                div = n.right
            elif isinstance(n, ast.AugAssign) and isinstance(
                    n.op, (ast.FloorDiv, ast.Mod)):
                div = n.value
            if div is not None and is_year_len(f, div):
                bad.append((f, n))
    rep.anchor(rule, "functions of data.py", n_f)
    for f, n in bad:
        rep.violation(
            rule, ctx.fkey(f, n, "radix"), f.loc(n),
            "%s divides a day count by the length of a single year (%s): "
            "the quotient counts years of *that* length, so once the count "
            "reaches into a third calendar year whose predecessor has "
            "another length (2020-W53 from 30 December 2019) the remainder "
            "is a day off" % (f.qual, U(n)[:70]), P)
    if not bad:
        rep.ok(rule, "data.py:no-year-length-radix", "-",
               "no day count is divided by the length of a single year (%d "
               "functions)" % n_f, P)


RULES["R66"] = r66_year_length_radix


# ------------------------------------------------------------------- R67
def r67_cli_offset_sign(ctx):
    """The command line accepts offsets of either sign in every duration
    notation; the duration parser's own '-' prefix is narrower (it refuses
    '-' before the date-time-like notation P0000-00-01).  date_shift
    therefore never hands the parser a string that may still carry its
    sign: on every path the text passed to duration_parser.parse() is
    either the slice after a sign test or known not to start with '-'."""
    rep = ctx.rep
    rule = "R67.offset-sign"
    P = ("C19",)
    rep.need_anchor(rule, "offset parsing")
    from ..flow import path_conds, alternatives, prefix_test
    oper = ctx.model.cls("DateTimeOperator")
    f = oper.methods.get("date_shift")
    if f is None:
        raise AnalysisError("DateTimeOperator.date_shift not found")
    calls = [n for n in walk_no_nested(f.node) if isinstance(n, ast.Call)
             and U(n.func).endswith("duration_parser.parse") and n.args]
    rep.anchor(rule, "offset parsing")
    if not calls:
        rep.undecided(rule, ctx.fkey(f, None, "unsigned"), f.loc(),
                      "date_shift does not call duration_parser.parse "
                      "itself", P)
        return
    for c in calls:
        arg = c.args[0]
        key = ctx.fkey(f, c, "unsigned")
        if not isinstance(arg, ast.Name):
            rep.undecided(rule, key, f.loc(c), "the parsed text is %s, not "
                          "a plain variable" % U(arg)[:40], P)
            continue
        # (a) the path to the call excludes a leading '-'
        excluded = any(not pol and prefix_test(f.node, t, "-") == arg.id
                       for t, pol in path_conds(c))
        # (b) every binding of the name that can reach the call
        stripped = []
        for n in walk_no_nested(f.node):
            if isinstance(n, ast.Assign) and any(
                    isinstance(t, ast.Name) and t.id == arg.id
                    for t in n.targets) and npos(n) < npos(c):
                v = n.value
                is_slice = isinstance(v, ast.Subscript) and isinstance(
                    v.slice, ast.Slice) and U(v.value) == arg.id and \
                    U(v.slice.lower or ast.Constant(value=0)) == "1"
                conds = path_conds(n)
                under_minus = any(
                    _covers_minus(f.node, t, arg.id) and pol
                    for t, pol in conds)
                stripped.append(is_slice and under_minus)
        ok = excluded or (bool(stripped) and any(stripped))
        rep.check(ok, rule, key, f.loc(c),
                  "a leading '-' is taken off (and applied as a "
                  "subtraction) before the text reaches the parser",
                  "%s passes `%s` to duration_parser.parse() with its sign "
                  "still on: the parser refuses '-' before the date-time-"
                  "like notation (-P0000-00-01), so negative offsets in "
                  "that spelling are no longer accepted" % (f.qual, arg.id),
                  P)


def _covers_minus(fnode, t, name):
    """test t (when true) includes the case `name starts with '-'`"""
    from ..flow import prefix_test
    if isinstance(t, ast.BoolOp) and isinstance(t.op, ast.Or):
        return any(_covers_minus(fnode, v, name) for v in t.values)
    if prefix_test(fnode, t, "-") == name:
        return True
    # name[0] in "+-" / name.startswith(("-", "+"))
    if isinstance(t, ast.Compare) and len(t.ops) == 1 and isinstance(
            t.ops[0], ast.In) and U(t.left) in (
                name + "[0]", name + "[:1]") and isinstance(
                    t.comparators[0], (ast.Constant, ast.Tuple, ast.List)):
        c = t.comparators[0]
        vals = c.value if isinstance(c, ast.Constant) else [
            getattr(x, "value", None) for x in c.elts]
        return "-" in vals
    if isinstance(t, ast.Call) and isinstance(t.func, ast.Attribute) and \
            t.func.attr == "startswith" and U(t.func.value) == name and \
            t.args and isinstance(t.args[0], ast.Tuple):
        return any(getattr(x, "value", None) == "-" for x in t.args[0].elts)
    return False


RULES["R67"] = r67_cli_offset_sign


# ------------------------------------------------------------------- R68
def r68_first_after_none(ctx):
    """get_first_after(p) answers None only for a reason the series gives:
    the point that would follow p lies outside the bounds, or p itself lies
    outside them and not before the start point (or p is None).  An answer
    of None taken before the bounds were consulted - because the series has
    a single member, say - loses 'the first member when p precedes the
    series'."""
    rep = ctx.rep
    rule = "R68.first-after-none"
    P = ("C13",)
    rep.need_anchor(rule, "TimeRecurrence.get_first_after")
    f = ctx.try_func("data.TimeRecurrence.get_first_after")
    if f is None:
        raise AnalysisError("TimeRecurrence.get_first_after not found")
    rep.anchor(rule, "TimeRecurrence.get_first_after")
    from ..dtable import explore
    key = ctx.fkey(f, None, "none-paths")
    tp = f.params[1] if len(f.params) > 1 else None
    try:
        paths = explore(f.node.body)
    except AnalysisError as exc:
        rep.undecided(rule, key, f.loc(), "not tabulated: %s" % exc, P)
        return
    bad, unsure, n_none = [], [], 0
    inb = re.compile(r"^%s\._get_is_in_bounds\((.*)\)$" % re.escape(
        f.self_name))
    # constructor invariant (from the reachable post-states of __init__, the
    # same the R18 clauses use): a recurrence without a duration has exactly
    # one member.  A probe inside the bounds of such a series is that member
    # and nothing follows it.
    try:
        from .recurrence import rec_states, NONE as _NONEV
        post_states = rec_states(ctx)[0]
        no_dur_single = bool(post_states) and all(
            st[1] == "one" for st in post_states if st[5] == _NONEV)
    except (AnalysisError, KeyError, IndexError):
        no_dur_single = False
    for p in paths:
        if p.outcome != "return" or not (
                isinstance(p.value, ast.Constant) and p.value.value is None):
            continue
        n_none += 1
        reason = False
        probe_out = before_start = None
        for atom, val in p.decisions.items():
            m = inb.match(atom)
            if m:
                if m.group(1).strip() == tp:
                    probe_out = (val is False)
                elif val is False:
                    reason = True       # the following point is outside
            if atom == "%s is None" % tp and val:
                reason = True
            if atom.replace(" ", "") == "%s<%s._start_point" % (
                    tp, f.self_name):
                before_start = val
        if probe_out and before_start is False:
            reason = True
        if probe_out is False and no_dur_single and p.decisions.get(
                "%s._duration is None" % f.self_name) is True:
            reason = True
        if reason:
            continue
        (unsure if p.skipped else bad).append(p.when()[:160] or "always")
    if bad:
        rep.violation(rule, key, f.loc(),
                      "TimeRecurrence.get_first_after answers None when %s: "
                      "neither the following point nor the probe was found "
                      "outside the bounds on that path, so a probe before "
                      "the series (whose first member should be returned) "
                      "gets None" % bad[0], P)
    elif unsure or not n_none:
        rep.undecided(rule, key, f.loc(),
                      "get_first_after: %s" % (
                          "a None answer after a loop (%s)" % unsure[0]
                          if unsure else "no constant None answer found"),
                      P)
    else:
        rep.ok(rule, key, f.loc(),
               "each of the %d paths answering None has found the following "
               "point, or the probe (not before the start), outside the "
               "bounds" % n_none, P)


RULES["R68"] = r68_first_after_none


# ------------------------------------------------------------------- R69
def r69_total_conserved(ctx):
    """Re-expressing a time of day or a duration in other units keeps its
    length.  Decided symbolically (sa/linear.py: linear normal form over the
    fields, with x % K = x - K * (x // K)), path by path:
      * get_hour_minute_second(): 3600*h + 60*m + s of what it returns
        equals 3600*hour + 60*minute + second of the fields that are set;
      * get_second_of_day(): what it returns equals that same total;
      * Duration(standardize=True): seconds + 60*minutes + 3600*hours +
        86400*days is the same after the carries as before."""
    rep = ctx.rep
    rule = "R69.total-conserved"
    rep.need_anchor(rule, "unit conversions")
    from ..dtable import explore
    from ..linear import lin, same, Lin, readable
    tp = ctx.model.cls("TimePoint")
    dur = ctx.model.cls("Duration")
    P_TP = ("C02", "C04", "C18", "C06", "C01")

    def none_env(p, sn, fields):
        """fields decided to be None on the path count as zero"""
        env = {}
        for fld in fields:
            if p.decisions.get("%s.%s is None" % (sn, fld)) is True:
                env["%s.%s" % (sn, fld)] = Lin()
        return env

    def total(sn, env, scales):
        t = Lin()
        for fld, k in scales:
            t = t.add(lin(ast.parse("%s.%s" % (sn, fld), mode="eval").body,
                          env).scale(k))
        return t
    TIME = (("_hour_of_day", 3600), ("_minute_of_hour", 60),
            ("_second_of_minute", 1))
    for name in ("get_hour_minute_second", "get_second_of_day"):
        f = tp.methods.get(name)
        if f is None:
            continue
        rep.anchor(rule, "unit conversions")
        key = ctx.fkey(f, None, "total")
        sn = f.self_name
        try:
            paths = explore(f.node.body)
        except AnalysisError as exc:
            rep.undecided(rule, key, f.loc(), "not tabulated: %s" % exc,
                          P_TP)
            continue
        bad, unsure, n = [], [], 0
        for p in paths:
            if p.outcome != "return" or p.value is None:
                continue
            env = none_env(p, sn, [x for x, _ in TIME[1:]])
            want = total(sn, env, TIME)
            v = p.value
            if name == "get_hour_minute_second":
                if not (isinstance(v, ast.Tuple) and len(v.elts) == 3):
                    unsure.append("returns %s" % U(v)[:50])
                    continue
                got = lin(v.elts[0], env).scale(3600).add(
                    lin(v.elts[1], env).scale(60)).add(lin(v.elts[2], env))
            else:
                got = lin(v, env)
            n += 1
            if p.skipped:
                unsure.append("a loop on the path")
            elif not readable(got):
                unsure.append("returns %s, which is not plain arithmetic "
                              "on the fields" % U(v)[:60])
            elif not same(got, want):
                bad.append("when %s it returns %s, i.e. a total of %s "
                           "seconds instead of %s" % (
                               p.when()[:120] or "always", U(v)[:80],
                               got.text()[:120], want.text()[:80]))
        if bad:
            rep.violation(rule, key, f.loc(),
                          "TimePoint.%s does not keep the time of day: %s" %
                          (name, bad[0]), P_TP)
        elif unsure or not n:
            rep.undecided(rule, key, f.loc(), "TimePoint.%s: %s" % (
                name, unsure[0] if unsure else "no return found"), P_TP)
        else:
            rep.ok(rule, key, f.loc(),
                   "on all %d paths what TimePoint.%s returns adds up to "
                   "3600*hour + 60*minute + second of the fields that are "
                   "set (symbolic identity)" % (n, name), P_TP)
    # _tick_over: the time-of-day part of the normaliser moves fractions
    # down and whole multiples up without changing the instant
    f = tp.methods.get("_tick_over")
    if f is not None:
        rep.anchor(rule, "unit conversions")
        key = ctx.fkey(f, None, "time-carry-total")
        sn = f.self_name
        region = []
        for st in f.node.body:
            region.append(st)
            if isinstance(st, ast.If) and "_hour_of_day is not None" in U(
                    st.test) and any(
                        "HOURS_IN_DAY" in U(x) for x in ast.walk(st)):
                break
        else:
            region = []
        P_T = ("C01", "C06", "C02", "C04", "C20", "C12")
        try:
            paths = explore(region) if region else []
        except AnalysisError:
            paths = []
        bad, unsure, n = [], [], 0
        DAYF = ("_day_of_week", "_day_of_month", "_day_of_year")
        for p in paths:
            if p.outcome not in ("fall", "return"):
                continue
            # a finer field is set only where the coarser ones are (for
            # truncated points that is not so: upstream issue #168, the
            # known finding K3 - those paths raise TypeError)
            isnone = {fld: p.decisions.get("%s.%s is None" % (sn, fld))
                      for fld, _k in TIME}
            if (isnone["_hour_of_day"] is True and (
                    isnone["_minute_of_hour"] is False or
                    isnone["_second_of_minute"] is False)) or (
                        isnone["_minute_of_hour"] is True and
                        isnone["_second_of_minute"] is False):
                continue
            # ... and a point without any day field (a truncated time of
            # day) has nothing to carry whole days into
            if all(p.decisions.get("%s.%s is None" % (sn, fld)) is True
                   for fld in DAYF):
                continue
            n += 1
            env = none_env(p, sn, [x for x, _ in TIME])
            before = total(sn, env, TIME)
            after = Lin()
            for fld, k in TIME:
                v = p.env.get("@%s.%s" % (sn, fld))
                if v is None:
                    v = ast.parse("%s.%s" % (sn, fld), mode="eval").body
                after = after.add(lin(v, env).scale(k))
            for fld in DAYF:
                v = p.env.get("@%s.%s" % (sn, fld))
                if v is not None:
                    orig = lin(ast.parse("%s.%s" % (sn, fld),
                                         mode="eval").body)
                    after = after.add(lin(v, env).add(orig, -1).scale(86400))
            if p.skipped:
                unsure.append("a loop on the path")
            elif not readable(after) or any(
                    "setattr(" in t_ for t_ in p.trace):
                unsure.append("fields are updated through setattr / "
                              "calls this rule does not read")
            elif not same(before, after) and any(
                    re.search(r"\b(?!int\b|float\b|divmod\b)[A-Za-z_]\w*\(",
                              a_) for a_ in p.decisions):
                unsure.append("a path is selected by a test this rule does "
                              "not read (%s)" % [
                                  a_[:40] for a_ in p.decisions
                                  if "(" in a_][:1])
            elif not same(before, after):
                bad.append("when %s: %s afterwards, %s before" % (
                    p.when()[:160] or "always", after.text()[:160],
                    before.text()[:80]))
        if bad:
            rep.violation(rule, key, f.loc(),
                          "TimePoint._tick_over changes the instant while "
                          "normalising the time of day (seconds + 60*minutes "
                          "+ 3600*hours + 86400*days carried): %s" % bad[0],
                          P_T)
        elif unsure or not n:
            rep.undecided(rule, key, f.loc(), "_tick_over time part: %s" % (
                unsure[0] if unsure else "the carry blocks were not found"),
                P_T)
        else:
            rep.ok(rule, key, f.loc(),
                   "on all %d paths of the time-of-day part of _tick_over "
                   "seconds + 60*minutes + 3600*hours + 86400*(days carried) "
                   "is unchanged (symbolic identity)" % n, P_T)
    # Duration(standardize=True)
    init = dur.methods.get("__init__")
    if init is not None:
        P_D = ("C11", "C10")
        blk = [n for n in init.node.body if isinstance(n, ast.If) and
               U(n.test) == "standardize"]
        key = ctx.fkey(init, None, "standardize-total")
        rep.anchor(rule, "unit conversions")
        if not blk:
            rep.undecided(rule, key, init.loc(), "Duration.__init__ has no "
                          "`if standardize:` block this rule reads", P_D)
        else:
            sn = init.self_name
            UNITS_ = (("_seconds", 1), ("_minutes", 60), ("_hours", 3600),
                      ("_days", 86400))
            try:
                paths = explore(blk[0].body)
            except AnalysisError:
                paths = []
            bad, unsure, n = [], [], 0
            for p in paths:
                if p.outcome not in ("fall", "return"):
                    continue
                n += 1
                env = none_env(p, sn, [x for x, _ in UNITS_])
                before = total(sn, env, UNITS_)
                after = Lin()
                for fld, k in UNITS_:
                    v = p.env.get("@%s.%s" % (sn, fld))
                    if v is None:
                        v = ast.parse("%s.%s" % (sn, fld), mode="eval").body
                    after = after.add(lin(v, env).scale(k))
                if p.skipped:
                    unsure.append("a loop on the path")
                elif not readable(after) or any(
                        "setattr(" in t_ for t_ in p.trace):
                    unsure.append("units are updated through setattr / "
                                  "calls this rule does not read")
                elif not same(before, after):
                    bad.append("when %s the units add up to %s afterwards "
                               "(before: %s)" % (p.when()[:140] or "always",
                                                 after.text()[:140],
                                                 before.text()[:80]))
            if bad:
                rep.violation(rule, key, init.loc(blk[0]),
                              "Duration(standardize=True) changes the length "
                              "of the duration: %s" % bad[0], P_D)
            elif unsure or not n:
                rep.undecided(rule, key, init.loc(blk[0]),
                              "standardize block: %s" % (
                                  unsure[0] if unsure else "no path"), P_D)
            else:
                rep.ok(rule, key, init.loc(blk[0]),
                       "on all %d paths of the standardize block seconds + "
                       "60*minutes + 3600*hours + 86400*days is unchanged "
                       "(symbolic identity)" % n, P_D)


RULES["R69"] = r69_total_conserved


# ------------------------------------------------------------------- R70
def r70_keyed_construction(ctx):
    """An object stored in a table under a key that is a configuration
    value (`TABLE[n] = Dumper(n)` under `n not in TABLE`) is built *from*
    that key: the key appears among the constructor's arguments.
    Otherwise every entry is the default object, whatever key it is found
    under."""
    rep = ctx.rep
    rule = "R70.keyed-construction"
    P = ("C07", "C08", "C17")
    rep.need_anchor(rule, "package functions")
    n_f = n_sites = 0
    for f in ctx.model.all_functions():
        n_f += 1
        for n in walk_no_nested(f.node):
            if not (isinstance(n, ast.Assign) and len(n.targets) == 1 and
                    isinstance(n.targets[0], ast.Subscript) and
                    isinstance(n.value, ast.Call)):
                continue
            k = n.targets[0].slice
            if isinstance(k, ast.Constant):
                continue
            callee = U(n.value.func).split(".")[-1]
            if not ctx.model.has_cls(callee):
                continue
            n_sites += 1
            args = [U(a) for a in n.value.args] + [
                U(kw.value) for kw in n.value.keywords]
            rep.check(U(k) in args, rule, ctx.fkey(f, n, "keyed"), f.loc(n),
                      "the %s stored under %s is built from that key" % (
                          callee, U(k)),
                      "%s stores %s(%s) under the key %s without handing "
                      "the key to the constructor: the entry for every key "
                      "is the default object (a dumper for 2 expanded year "
                      "digits serves points with 1 or 3)" % (
                          f.qual, callee, ", ".join(args), U(k)), P)
    rep.anchor(rule, "package functions", n_f)
    if not n_sites:
        rep.ok(rule, "package:no-keyed-construction", "-",
               "no object is constructed into a table under a computed key "
               "(%d functions)" % n_f, P, nontrivial=False)


RULES["R70"] = r70_keyed_construction


# ------------------------------------------------------------------- R71
def r71_week_form(ctx):
    """The week form of a Duration is 'the week slot is set' - zero weeks
    included (P0W, the result of P1W // 2) - and its week count is the
    signed day count divided by the week length:
      * get_is_in_weeks() answers by `_weeks is not None`, never by the
        truthiness of the count;
      * the count the constructor stores is (days + 7*weeks) // 7 of its
        arguments - nothing in between (an abs()) drops the sign."""
    rep = ctx.rep
    rule = "R71.week-form"
    P = ("C10", "C11")
    rep.need_anchor(rule, "Duration week form")
    from ..dtable import explore
    from ..linear import lin
    from ..model import clone
    dur = ctx.model.cls("Duration")
    f = dur.methods.get("get_is_in_weeks")
    if f is not None:
        rep.anchor(rule, "Duration week form")
        key = ctx.fkey(f, None, "predicate")
        sn = f.self_name

        class _Boolify(ast.NodeTransformer):
            def visit_Return(self, node):
                if node.value is None or isinstance(node.value,
                                                    ast.Constant):
                    return node
                return ast.copy_location(ast.If(
                    test=node.value,
                    body=[ast.Return(value=ast.Constant(value=True))],
                    orelse=[ast.Return(value=ast.Constant(value=False))]),
                    node)
        body = [ast.fix_missing_locations(_Boolify().visit(clone(st)))
                for st in f.node.body]
        try:
            paths = explore(body)
        except AnalysisError:
            paths = []
        atom_none = "%s._weeks is None" % sn
        atom_truth = "%s._weeks" % sn
        verdict = "ok" if paths else "unknown"
        for p in paths:
            if p.outcome != "return" or not isinstance(p.value,
                                                       ast.Constant):
                verdict = "unknown"
                break
            others = set(p.decisions) - {atom_none}
            if atom_truth in others:
                verdict = "truthy"
                break
            if others:
                verdict = "unknown"
                break
            if p.decisions.get(atom_none) is None or \
                    bool(p.value.value) == p.decisions[atom_none]:
                verdict = "wrong"
                break
        if verdict == "unknown":
            rep.undecided(rule, key, f.loc(), "get_is_in_weeks is not a "
                          "test of the week slot this rule reads", P)
        else:
            rep.check(verdict == "ok", rule, key, f.loc(),
                      "get_is_in_weeks() is `_weeks is not None`",
                      "Duration.get_is_in_weeks %s: a week-form duration of "
                      "zero weeks (P1W // 2, P3W * 0) is then taken for a "
                      "unit-form one whose unit slots are all None - "
                      "comparing or adding it raises TypeError" % (
                          "tests the week count by truthiness"
                          if verdict == "truthy" else
                          "does not answer True exactly when the week slot "
                          "is set"), P)
    init = dur.methods.get("__init__")
    if init is not None and {"days", "weeks"} <= set(init.call_params):
        rep.anchor(rule, "Duration week form")
        key = ctx.fkey(init, None, "week-count")
        sn = init.self_name
        prefix = []
        for st in init.node.body:
            if isinstance(st, ast.If) and U(st.test) == "standardize":
                break
            prefix.append(st)
        try:
            paths = explore(prefix)
        except AnalysisError:
            paths = []
        bad, n = [], 0
        for p in paths:
            v = p.env.get("@%s._weeks" % sn)
            if v is None or (isinstance(v, ast.Constant) and
                             v.value is None):
                continue
            n += 1
            if not (isinstance(v, ast.BinOp) and isinstance(
                    v.op, ast.FloorDiv)):
                bad.append(U(v)[:60])
                continue
            num = lin(v.left)
            den = lin(v.right).const()
            if den != 7 or set(num) - {"days", "weeks", 1}:
                bad.append(U(v)[:60])
        if not n:
            rep.undecided(rule, key, init.loc(), "no path of the "
                          "constructor stores a week count", P)
        else:
            rep.check(not bad, rule, key, init.loc(),
                      "the stored week count is the signed day count of the "
                      "arguments divided by the week length (%d paths)" % n,
                      "Duration.__init__ stores the week count %s: not the "
                      "plain quotient of the signed day count by "
                      "DAYS_IN_WEEK (the sign of -P2W is lost)" % bad[:2], P)


RULES["R71"] = r71_week_form


# ------------------------------------------------------------------- R72
YEAR_HELPERS = ("iter_months_days", "get_days_in_year", "get_is_leap_year",
                "get_weeks_in_year", "get_days_in_year_range")


def r72_loop_year_argument(ctx):
    """A loop that steps a year counter asks the calendar helpers about
    *that* year on every round: inside a loop that changes a year (a local
    counter or the `_year` field), the year argument of iter_months_days /
    get_days_in_year / get_is_leap_year / get_weeks_in_year depends on what
    the loop changes.  A year expression that is the same on every round
    (`self._year - 1` while `start_year` counts down) walks one year's
    months again and again."""
    rep = ctx.rep
    rule = "R72.loop-year-argument"
    P = ("C01", "C18", "C06", "C05", "C04", "C12")
    rep.need_anchor(rule, "functions of data.py")
    n_f = n_sites = 0
    for f in ctx.model.all_functions():
        if f.module.name != "data":
            continue
        n_f += 1
        # what holds a year here: whatever is handed to a calendar helper
        # as its year, or copied to / from a `_year` field
        year_names = set()
        for n in walk_no_nested(f.node):
            if isinstance(n, ast.Call) and U(n.func).lstrip(
                    "_") in YEAR_HELPERS and n.args and isinstance(
                        n.args[0], ast.Name):
                year_names.add(n.args[0].id)
            if isinstance(n, ast.Assign) and len(n.targets) == 1:
                t, v = n.targets[0], n.value
                if isinstance(t, ast.Name) and isinstance(
                        v, ast.Attribute) and v.attr == "_year":
                    year_names.add(t.id)
                if isinstance(v, ast.Name) and isinstance(
                        t, ast.Attribute) and t.attr == "_year":
                    year_names.add(v.id)
        for lp in walk_no_nested(f.node):
            if not isinstance(lp, (ast.While, ast.For)):
                continue
            changed = set()
            for n in ast.walk(lp):
                if isinstance(n, ast.AugAssign):
                    changed.add(U(n.target))
                elif isinstance(n, ast.Assign):
                    for t in n.targets:
                        for x in (t.elts if isinstance(t, ast.Tuple)
                                  else [t]):
                            changed.add(U(x))
            if isinstance(lp, ast.For):
                changed |= {U(x) for x in ast.walk(lp.target)
                            if isinstance(x, (ast.Name, ast.Attribute))}
            years = {c for c in changed if c in year_names or
                     c.split(".")[-1] == "_year"}
            if not years:
                continue
            # calls evaluated on every round (a `for` loop's own iterable
            # is evaluated once, before the loop)
            scope = list(lp.body) + ([lp.test] if isinstance(
                lp, ast.While) else [])
            for c in [x for part in scope for x in ast.walk(part)]:
                if not (isinstance(c, ast.Call) and U(c.func).lstrip(
                        "_") in YEAR_HELPERS and c.args):
                    continue
                yarg = c.args[0]
                n_sites += 1
                names = {U(x) for x in ast.walk(yarg)
                         if isinstance(x, (ast.Name, ast.Attribute))}
                rep.check(
                    bool(names & changed), rule, ctx.fkey(f, c, "fresh-year"),
                    f.loc(c),
                    "`%s` follows the year the loop steps" % U(c)[:50],
                    "%s calls %s inside a loop that steps %s, but the year "
                    "it asks about (%s) is the same on every round: the "
                    "months of one year are walked again for each further "
                    "year (wrong as soon as the years differ in length)" % (
                        f.qual, U(c.func), sorted(years), U(yarg)), P)
    rep.anchor(rule, "functions of data.py", n_f)
    if not n_sites:
        rep.ok(rule, "data.py:no-year-loops", "-", "no loop steps a year "
               "and calls a calendar helper (%d functions)" % n_f, P,
               nontrivial=False)


RULES["R72"] = r72_loop_year_argument


# ------------------------------------------------------------------- R73
def r73_first_success(ctx):
    """A loop that tries alternatives in order - `for fmt in FORMATS: try:
    result = parse(text, fmt) ... except ValueError: pass` - stops at the
    first that succeeds (break / return at the end of the try body or its
    else clause).  Without it every later alternative is tried as well and
    the loop variable ends as the *last* one, whatever matched."""
    rep = ctx.rep
    rule = "R73.first-success"
    P = ("C19", "C17")
    rep.need_anchor(rule, "package functions")
    n_f = n_sites = 0
    for f in ctx.model.all_functions():
        n_f += 1
        for lp in walk_no_nested(f.node):
            if not (isinstance(lp, ast.For) and len(lp.body) == 1 and
                    isinstance(lp.body[0], ast.Try)):
                continue
            t = lp.body[0]
            swallow = t.handlers and all(
                all(isinstance(x, (ast.Pass, ast.Continue)) for x in h.body)
                for h in t.handlers)
            # (a result variable, not an item converted in place)
            assigns = [x for x in t.body if isinstance(x, ast.Assign) and
                       all(isinstance(y, ast.Name) for y in x.targets)]
            if not swallow or not assigns:
                continue
            n_sites += 1
            tail = (t.orelse or t.body)[-1]
            leaves = isinstance(tail, (ast.Break, ast.Return))
            # the loop variable (which alternative matched) is used later
            lv = {x.id for x in ast.walk(lp.target)
                  if isinstance(x, ast.Name)}
            rep.check(leaves, rule, ctx.fkey(f, lp, "stops"), f.loc(lp),
                      "the search over %s stops at the first alternative "
                      "that succeeds" % U(lp.iter)[:40],
                      "%s tries every alternative of %s even after one "
                      "succeeded (no break/return after the successful "
                      "attempt): the result and `%s` end as the last "
                      "alternative that happens to succeed, not the first "
                      "- input is then printed in another notation than it "
                      "was written in" % (f.qual, U(lp.iter)[:40],
                                          ", ".join(sorted(lv))), P)
    rep.anchor(rule, "package functions", n_f)
    if not n_sites:
        rep.ok(rule, "package:no-try-search-loops", "-",
               "no loop tries alternatives under try/except (%d functions)"
               % n_f, P, nontrivial=False)


RULES["R73"] = r73_first_success


# ------------------------------------------------------------------- R74
def r74_truncation_gate(ctx):
    """A parser that was not told to allow truncated forms produces no
    truncated point.  For text matched against the tables that is the
    tables' business (get_date_info drops the truncated forms); where the
    parser itself fabricates the information `truncated` - for a date part
    that is empty - it does so only on a path on which `allow_truncated`
    holds."""
    rep = ctx.rep
    rule = "R74.truncation-gate"
    P = ("C09", "C07")
    rep.need_anchor(rule, "TimePointParser.get_info")
    from ..flow import path_conds
    f = ctx.try_func("parsers.TimePointParser.get_info")
    if f is None:
        raise AnalysisError("TimePointParser.get_info not found")
    rep.anchor(rule, "TimePointParser.get_info")
    sites = []
    for n in walk_no_nested(f.node):
        fab = False
        if isinstance(n, ast.Dict):
            for k, v in zip(n.keys, n.values):
                if isinstance(k, ast.Constant) and k.value == "truncated" \
                        and isinstance(v, ast.Constant) and v.value is True:
                    fab = True
        elif isinstance(n, ast.Assign) and isinstance(
                n.targets[0], ast.Subscript) and isinstance(
                    n.targets[0].slice, ast.Constant) and \
                n.targets[0].slice.value == "truncated" and isinstance(
                    n.value, ast.Constant) and n.value.value is True:
            fab = True
        if fab:
            sites.append(n)
    if not sites:
        rep.ok(rule, ctx.fkey(f, None, "fabricated"), f.loc(),
               "get_info fabricates no truncated date information itself",
               P, nontrivial=False)
        return
    for n in sites:
        gated = False
        for t, pol in path_conds(n):
            for c in ([t] if not isinstance(t, ast.BoolOp) else (
                    t.values if isinstance(t.op, ast.And) == pol else [])):
                cc, pl = c, pol
                while isinstance(cc, ast.UnaryOp) and isinstance(
                        cc.op, ast.Not):
                    cc, pl = cc.operand, not pl
                if U(cc).endswith("allow_truncated") and pl:
                    gated = True
        rep.check(gated, rule, ctx.fkey(f, n, "fabricated"), f.loc(n),
                  "truncated date information for an empty date part is made "
                  "up only where allow_truncated holds",
                  "TimePointParser.get_info marks the date as truncated (%s) "
                  "on a path that does not test allow_truncated: a parser "
                  "that does not allow truncated forms accepts `T06` as a "
                  "truncated time point (and recurrences built from it "
                  "raise TypeError)" % U(n)[:50], P)


RULES["R74"] = r74_truncation_gate


# ------------------------------------------------------------------- R75
def r75_zero_interval_allowed(ctx):
    """Only a *negative* interval is refused by the TimeRecurrence
    constructor: a zero interval denotes the single point of its anchor
    (the constructor collapses it to one repetition).  A refusal guarded by
    a comparison of the interval with the zero Duration is strict."""
    rep = ctx.rep
    rule = "R75.zero-interval"
    P = ("C12", "C14", "C13")
    rep.need_anchor(rule, "TimeRecurrence.__init__")
    from ..flow import path_conds
    f = ctx.try_func("data.TimeRecurrence.__init__")
    if f is None:
        raise AnalysisError("TimeRecurrence.__init__ not found")
    rep.anchor(rule, "TimeRecurrence.__init__")

    def is_zero(e):
        return isinstance(e, ast.Call) and U(e.func).endswith(
            "Duration") and not e.args and all(
                isinstance(k.value, ast.Constant) and k.value.value == 0
                for k in e.keywords)
    n_sites = 0
    for r in walk_no_nested(f.node):
        if not isinstance(r, ast.Raise):
            continue
        for t, pol in path_conds(r):
            parts = t.values if isinstance(t, ast.BoolOp) and isinstance(
                t.op, ast.And) and pol else [t]
            for c in parts:
                if not (isinstance(c, ast.Compare) and len(c.ops) == 1):
                    continue
                a, b, op = c.left, c.comparators[0], type(c.ops[0])
                if is_zero(a) and not is_zero(b):
                    a, b = b, a
                    op = {ast.Lt: ast.Gt, ast.Gt: ast.Lt, ast.LtE: ast.GtE,
                          ast.GtE: ast.LtE}.get(op, op)
                if not is_zero(b) or "duration" not in U(a).lower():
                    continue
                if not pol:
                    op = {ast.Lt: ast.GtE, ast.GtE: ast.Lt, ast.Gt: ast.LtE,
                          ast.LtE: ast.Gt}.get(op, op)
                n_sites += 1
                rep.check(op is ast.Lt, rule, ctx.fkey(f, r, "strict"),
                          f.loc(r),
                          "the interval is refused only when it is below "
                          "the zero duration",
                          "TimeRecurrence.__init__ refuses the interval "
                          "under `%s`: a zero interval (P0Y, PT0S - one "
                          "point, the anchor) is refused along with the "
                          "negative ones" % U(c), P)
    if not n_sites:
        rep.undecided(rule, ctx.fkey(f, None, "strict"), f.loc(),
                      "no refusal guarded by a comparison of the interval "
                      "with the zero Duration was found", P)


RULES["R75"] = r75_zero_interval_allowed


# ------------------------------------------------------------------- R76
STRUCT_TIME = {"year": "tm_year", "month_of_year": "tm_mon",
               "day_of_month": "tm_mday", "hour_of_day": "tm_hour",
               "minute_of_hour": "tm_min", "second_of_minute": "tm_sec",
               "day_of_year": "tm_yday"}


def r76_configuration_reaches_tables(ctx):
    """Two plumbing facts.  (a) The number of expanded year digits a parser
    or dumper was configured with reaches the date translate table it
    builds its regexes / templates from: every call of
    get_date_translate_info in a class that has `num_expanded_year_digits`
    passes it.  (b) A TimePoint built from a time.struct_time takes each
    keyword from the field of the same meaning (day_of_month from tm_mday,
    not tm_yday)."""
    rep = ctx.rep
    rule = "R76.plumbing"
    rep.need_anchor(rule, "package functions")
    n_f = n_a = n_b = 0
    for f in ctx.model.all_functions():
        n_f += 1
        for n in walk_no_nested(f.node):
            if not isinstance(n, ast.Call):
                continue
            fn = U(n.func).split(".")[-1]
            if fn == "get_date_translate_info" and f.cls is not None and \
                    f.self_name and f.module.name in ("parsers", "dumpers"):
                n_a += 1
                args = [U(a) for a in n.args] + [U(k.value)
                                                 for k in n.keywords]
                rep.check(
                    any(a.endswith("num_expanded_year_digits")
                        for a in args), rule,
                    ctx.fkey(f, n, "digits"), f.loc(n),
                    "the configured number of expanded year digits is "
                    "handed to get_date_translate_info",
                    "%s calls get_date_translate_info(%s) without its "
                    "num_expanded_year_digits: the date forms are always "
                    "built for the default of 2 extra digits, whatever the "
                    "parser was configured with" % (f.qual, ", ".join(args)),
                    ("C07", "C08", "C17"))
            for k in n.keywords:
                if k.arg in STRUCT_TIME and isinstance(
                        k.value, ast.Attribute) and \
                        k.value.attr.startswith("tm_"):
                    n_b += 1
                    rep.check(
                        k.value.attr == STRUCT_TIME[k.arg], rule,
                        ctx.fkey(f, n, "struct-time:" + k.arg), f.loc(n),
                        "%s is taken from %s" % (k.arg, k.value.attr),
                        "%s builds a time point with %s=%s: that keyword "
                        "takes %s (the %s of a struct_time is another "
                        "quantity)" % (f.qual, k.arg, U(k.value),
                                       STRUCT_TIME[k.arg], k.value.attr),
                        ("C19", "C17"))
    rep.anchor(rule, "package functions", n_f)
    rep.ok(rule, "package:plumbing-sites", "-",
           "%d calls of get_date_translate_info from configured classes, %d "
           "struct_time keywords looked at" % (n_a, n_b),
           ("C07", "C19"), nontrivial=False)


RULES["R76"] = r76_configuration_reaches_tables


# ------------------------------------------------------------------- R77
def r77_fraction_moves_down(ctx):
    """Normal form of the time of day: a field is whole whenever a finer
    field is set.  In _tick_over the fractional part of a field X is moved
    into the next finer field Y (`X -= f; Y += f * radix`) exactly when both
    are set: the guard of that block is `X is not None and Y is not None`
    for the X and Y the block works on - tested on another field, the
    fraction stays in X for some precision forms (7,5 hours and 10 minutes)
    or is pushed into a field that is None."""
    rep = ctx.rep
    rule = "R77.fraction-guard"
    P = ("C01", "C06", "C02", "C04", "C20")
    rep.need_anchor(rule, "fraction blocks of _tick_over")
    from ..flow import path_conds
    from .round5 import _atoms_of
    f = ctx.func("data.TimePoint._tick_over")
    sn = f.self_name
    n_blocks = 0
    for blk in walk_no_nested(f.node):
        if not isinstance(blk, ast.If):
            continue
        subs = [s for s in blk.body if isinstance(s, ast.AugAssign) and
                isinstance(s.op, ast.Sub) and isinstance(
                    s.target, ast.Attribute) and U(s.target.value) == sn]
        adds = [s for s in blk.body if isinstance(s, ast.AugAssign) and
                isinstance(s.op, ast.Add) and isinstance(
                    s.target, ast.Attribute) and U(s.target.value) == sn]
        rem = [s for s in blk.body if isinstance(s, ast.Assign) and any(
            isinstance(x, ast.Call) and U(x.func) == "int"
            for x in ast.walk(s.value))]
        if len(subs) != 1 or len(adds) != 1 or not rem:
            continue
        n_blocks += 1
        rep.anchor(rule, "fraction blocks of _tick_over")
        X, Y = subs[0].target.attr, adds[0].target.attr
        atoms = _atoms_of(path_conds(subs[0]))
        want = {(X, True), (Y, True)}
        if atoms is None:
            rep.undecided(rule, ctx.fkey(f, blk, "guard:%s" % X), f.loc(blk),
                          "the guard of the %s fraction block is not a "
                          "conjunction this rule reads" % X, P)
            continue
        got = set()
        for t, pol in atoms:
            if not (isinstance(t, ast.Compare) and len(t.ops) == 1 and
                    isinstance(t.ops[0], (ast.Is, ast.IsNot)) and
                    isinstance(t.comparators[0], ast.Constant) and
                    t.comparators[0].value is None and
                    isinstance(t.left, ast.Attribute) and
                    U(t.left.value) == sn):
                continue
            is_set = isinstance(t.ops[0], ast.IsNot) == pol
            got.add((t.left.attr, is_set))
        rep.check(got == want, rule, ctx.fkey(f, blk, "guard:%s" % X),
                  f.loc(blk),
                  "the fraction of %s moves into %s exactly when both are "
                  "set" % (X, Y),
                  "TimePoint._tick_over moves the fraction of %s into %s "
                  "under `%s`; it must be exactly `%s is not None and %s is "
                  "not None`: otherwise the fraction stays in %s although "
                  "%s is set (or is added to a field that is None)" % (
                      X, Y, U(blk.test)[:80], X, Y, X, Y), P)
    if not n_blocks:
        rep.anchor(rule, "fraction blocks of _tick_over")
        rep.undecided(rule, ctx.fkey(f, None, "guards"), f.loc(),
                      "_tick_over has no `X -= f; Y += f * radix` blocks "
                      "this rule reads", P)
    # every field is brought into range exactly when it is set: the
    # statement that reduces field F (F = remainder of divmod(F, radix), a
    # while loop on F, a call of _tick_over_F) is reached under
    # `F is not None` and under no test of another field - a truthiness
    # test skips the intermediate value 0 (day 0 = 31 December)
    rule2 = "R77.subject-guard"
    rep.need_anchor(rule2, "reductions of _tick_over")
    from ..flow import block_of
    slots = set(ctx.folder.need_class_const(ctx.model.cls("TimePoint"),
                                            "__slots__"))
    subjects = []       # (statement, field)
    for st in walk_no_nested(f.node):
        if isinstance(st, ast.Assign) and len(st.targets) == 1 and \
                isinstance(st.targets[0], ast.Attribute) and \
                U(st.targets[0].value) == sn:
            fld = st.targets[0].attr
            owner, _, lst = block_of(st)
            for prev in (lst or [])[:(lst or []).index(st)]:
                if isinstance(prev, ast.Assign) and isinstance(
                        prev.value, ast.Call) and U(
                            prev.value.func) == "divmod" and \
                        prev.value.args and "%s.%s" % (sn, fld) in U(
                            prev.value.args[0]) and any(
                                isinstance(x, ast.Name) and x.id in {
                                    y.id for y in ast.walk(st.value)
                                    if isinstance(y, ast.Name)}
                                for x in ast.walk(prev.targets[0])):
                    subjects.append((st, fld))
                    break
        elif isinstance(st, ast.While) and isinstance(
                st.test, ast.Compare) and isinstance(
                    st.test.left, ast.Attribute) and U(
                        st.test.left.value) == sn and any(
                            isinstance(x, ast.AugAssign) and U(x.target) ==
                            U(st.test.left) for x in ast.walk(st)):
            subjects.append((st, st.test.left.attr))
        elif isinstance(st, ast.Expr) and isinstance(
                st.value, ast.Call) and isinstance(
                    st.value.func, ast.Attribute) and U(
                        st.value.func.value) == sn and \
                st.value.func.attr.startswith("_tick_over_") and \
                st.value.func.attr[len("_tick_over"):] in slots:
            subjects.append((st, st.value.func.attr[len("_tick_over"):]))
    for st, fld in subjects:
        rep.anchor(rule2, "reductions of _tick_over")
        atoms = _atoms_of(path_conds(st))
        key = ctx.fkey(f, None, "reduces:%s" % fld)
        if atoms is None:
            rep.undecided(rule2, key, f.loc(st), "the conditions under "
                          "which %s is reduced are not a conjunction" % fld,
                          P)
            continue
        got = set()
        for t, pol in atoms:
            if isinstance(t, ast.Compare) and len(t.ops) == 1 and \
                    isinstance(t.ops[0], (ast.Is, ast.IsNot)) and \
                    U(t.comparators[0]) == "None" and isinstance(
                        t.left, ast.Attribute) and U(t.left.value) == sn:
                got.add((t.left.attr, "set" if isinstance(
                    t.ops[0], ast.IsNot) == pol else "unset"))
            elif isinstance(t, ast.Attribute) and U(t.value) == sn and \
                    t.attr in slots:
                got.add((t.attr, "non-zero" if pol else "zero-or-unset"))
        rep.check(got == {(fld, "set")}, rule2, key, f.loc(st),
                  "%s is brought into range exactly when it is set" % fld,
                  "TimePoint._tick_over reduces %s (%s) under the field "
                  "tests %s; it must be exactly `%s is not None`: tested on "
                  "another field, or for truthiness, the reduction is "
                  "skipped for values that need it (minute 75 of an "
                  "hh:mm,m point; day 0 of an ordinal date, i.e. 31 "
                  "December of the year before)" % (
                      fld, U(st).split("\n")[0][:50],
                      sorted(got) or "none", fld), P)
    if not subjects:
        rep.anchor(rule2, "reductions of _tick_over")
        rep.undecided(rule2, ctx.fkey(f, None, "reductions"), f.loc(),
                      "_tick_over reduces no field in a form this rule "
                      "reads", P)


RULES["R77"] = r77_fraction_moves_down


# ------------------------------------------------------------------- R78
def r78_zone_difference_known(ctx):
    """An unknown time zone (that of a truncated point written without one)
    has no offset: its hours and minutes are zero only as a placeholder.
    Wherever TimePoint takes the difference of two zones to shift fields,
    the zone the fields are shifted *to* (the minuend) has been tested for
    `_unknown` and the shift is skipped for it - otherwise a zone-less
    truncated point is treated as UTC, and adding it to a point at +05:30
    matches its fields in UTC instead of in that point's own zone."""
    rep = ctx.rep
    rule = "R78.zone-difference-known"
    P = ("C20",)
    rep.need_anchor(rule, "zone differences")
    from ..flow import path_conds
    tp = ctx.model.cls("TimePoint")

    def is_zone(e, f):
        if isinstance(e, ast.Attribute) and e.attr in (
                "_time_zone", "time_zone"):
            return True
        if isinstance(e, ast.Name):
            for a in f.node.args.args + f.node.args.kwonlyargs:
                if a.arg == e.id and a.annotation is not None and \
                        "TimeZone" in U(a.annotation):
                    return True
        return False
    n_sites = 0
    for name, f in sorted(tp.methods.items()):
        for n in walk_no_nested(f.node):
            if not (isinstance(n, ast.BinOp) and isinstance(n.op, ast.Sub)
                    and is_zone(n.left, f) and is_zone(n.right, f)):
                continue
            n_sites += 1
            rep.anchor(rule, "zone differences")
            atoms = _atoms_of(path_conds(n))
            key = ctx.fkey(f, n, "known:%s" % U(n.left))
            if atoms is None:
                rep.undecided(rule, key, f.loc(n), "the conditions under "
                              "which `%s` is evaluated are not a "
                              "conjunction" % U(n), P)
                continue
            known = {U(t) for t, pol in atoms if not pol}
            want = {U(n.left) + "._unknown", U(n.left) + ".unknown"}
            rep.check(bool(known & want), rule, key, f.loc(n),
                      "`%s` is evaluated only when %s is a known zone" % (
                          U(n), U(n.left)),
                      "TimePoint.%s evaluates `%s` without having excluded "
                      "that %s is the unknown zone of a truncated point: "
                      "the unknown zone counts as +00:00 and the fields are "
                      "shifted to UTC (2024-059T20:00+05:30 + T06 gives "
                      "11:30+05:30 instead of 06:00+05:30)" % (
                          name, U(n), U(n.left)), P)
    if not n_sites:
        rep.anchor(rule, "zone differences")
        rep.undecided(rule, "data.py:TimePoint:zone-differences", "data.py",
                      "TimePoint takes no difference of two zones in the "
                      "form this rule reads", P)


RULES["R78"] = r78_zone_difference_known


# ------------------------------------------------------------------- R79
def r79_month_day_ranges(ctx):
    """iter_months_days enumerates the days of a year, month by month; the
    carries that add or subtract whole days walk that list.  Every day range
    it builds for a month of `days` days runs from day 1 (or the start day)
    through day `days`: forwards range(lo, days + 1), backwards
    range(hi, 0, -1).  One short at either end drops the 1st or the last of
    every month walked, and each such month puts the walk off by a day."""
    rep = ctx.rep
    rule = "R79.month-day-ranges"
    P = ("C01", "C02", "C04", "C05", "C12", "C15", "C20", "C03")
    rep.need_anchor(rule, "day ranges of _iter_months_days")
    from ..linear import lin
    from ..flow import expand_values
    f = ctx.try_func("data._iter_months_days")
    if f is None:
        rep.anchor(rule, "day ranges of _iter_months_days")
        rep.undecided(rule, "data.py:_iter_months_days:ranges", "data.py",
                      "data._iter_months_days not found", P)
        return
    start_day = f.params[2] if len(f.params) > 2 else "day_of_month"
    n_ranges = 0
    for lp in walk_no_nested(f.node):
        if not (isinstance(lp, ast.For) and isinstance(lp.target, ast.Tuple)
                and len(lp.target.elts) == 2 and
                isinstance(lp.target.elts[1], ast.Name)):
            continue
        days = lp.target.elts[1].id
        for c in ast.walk(lp):
            if not (isinstance(c, ast.Call) and U(c.func) == "range" and
                    1 <= len(c.args) <= 3):
                continue
            n_ranges += 1
            rep.anchor(rule, "day ranges of _iter_months_days")
            args = list(c.args)
            step = lin(args[2], {}).const() if len(args) == 3 else 1
            lo = args[0] if len(args) > 1 else ast.Constant(0)
            hi = args[1] if len(args) > 1 else args[0]
            key = ctx.fkey(f, c, "range")
            # a bound held in a local stands for the values the local takes
            los = [v for v, _ in expand_values(f.node, lo)]
            his = [v for v, _ in expand_values(f.node, hi)]
            dlin = lin(ast.Name(days, ast.Load()), {})
            if step == 1:
                first_ok = all(lin(v, {}).const() == 1 or U(v) == start_day
                               for v in los)
                last_ok = all(lin(v, {}).add(dlin, -1).const() == 1
                              for v in his)
                want = "range(1 or %s, %s + 1)" % (start_day, days)
            elif step == -1:
                first_ok = all(U(v) in (days, start_day) for v in los)
                last_ok = all(lin(v, {}).const() == 0 for v in his)
                want = "range(%s or %s, 0, -1)" % (days, start_day)
            else:
                first_ok = last_ok = False
                want = "a step of 1 or -1"
            rep.check(first_ok and last_ok, rule, key, f.loc(c),
                      "`%s` runs from the first (or start) day through the "
                      "last day of the month" % U(c),
                      "_iter_months_days builds the days of a month as `%s` "
                      "(expected %s): the %s of each such month is left "
                      "out, so every walk over whole days that crosses it "
                      "(2021-03-15 - P42D) lands a day off" % (
                          U(c), want, "first or start day" if not (
                              first_ok if step == 1 else last_ok)
                          else "last day"), P)
    if not n_ranges:
        rep.anchor(rule, "day ranges of _iter_months_days")
        rep.undecided(rule, ctx.fkey(f, None, "ranges"), f.loc(),
                      "_iter_months_days builds no range() over a month's "
                      "days in a loop over (month, days) pairs", P)


RULES["R79"] = r79_month_day_ranges


# ------------------------------------------------------------------- R80
# (floor / ceil / int() take the whole part of a quotient - counting whole
# intervals, splitting a value into units - and are not listed: they are part
# of exact arithmetic)
LOSSY_CALLS = {"round", "isclose", "quantize", "nextafter"}


def r80_no_rounding(ctx):
    """The library computes with the numbers it is given: whole numbers stay
    whole by integer arithmetic, fractions are carried as they are, and the
    only place a value loses digits is the six-decimal text of a dump.
    Nothing in the value classes, the parsers or the dumpers rounds a value,
    compares with a tolerance or snaps to a grid: a `round(x, 6)` to 'drop
    float noise' changes the instant or the length (and can produce the 60th
    second)."""
    rep = ctx.rep
    rule = "R80.no-rounding"
    P = ("C01", "C02", "C04", "C06", "C08", "C10", "C11", "C13", "C14",
         "C17", "C18", "C12")
    rep.need_anchor(rule, "functions of the library")
    n = 0
    for f in ctx.model.all_functions():
        if f.module.name not in ("data", "dumpers", "parsers", "timezone",
                                 "datetimeoper"):
            continue
        n += 1
        for c in walk_no_nested(f.node):
            if not isinstance(c, ast.Call):
                continue
            name = U(c.func).split(".")[-1]
            if name not in LOSSY_CALLS:
                continue
            if name in ("isclose", "nextafter") and not (
                            isinstance(c.func, ast.Name) or
                            U(c.func).startswith("math.")):
                continue
            rep.violation(
                rule, ctx.fkey(f, c, "lossy:%s" % name), f.loc(c),
                "%s passes a value through `%s`: values are carried exactly "
                "(integers by integer arithmetic, fractions as given) and "
                "lose digits only in the six-decimal text of a dump; "
                "rounding or a tolerance here changes the instant / the "
                "length for inputs finer than the grid, or makes unequal "
                "values equal while their hashes differ" % (
                    f.qual, U(c)[:60]), P)
        # a tolerance written as a comparison with a tiny float literal
        for c in walk_no_nested(f.node):
            if isinstance(c, ast.Compare):
                for x in [c.left] + list(c.comparators):
                    if isinstance(x, ast.Constant) and isinstance(
                            x.value, float) and 0 < abs(x.value) < 1e-3:
                        rep.violation(
                            rule, ctx.fkey(f, c, "tolerance"), f.loc(c),
                            "%s compares with the tolerance %r in `%s`: a "
                            "value within the tolerance is treated as "
                            "another value (a genuine fraction of that "
                            "size is dropped)" % (f.qual, x.value,
                                                  U(c)[:60]), P)
    rep.anchor(rule, "functions of the library", n)
    rep.ok(rule, "package:no-rounding", "-",
           "%d functions: no round / isclose / quantize call and no "
           "comparison with a tolerance literal" % n, P)


RULES["R80"] = r80_no_rounding
