"""E8 - both-ways self-validation: in-memory variants of the current source
are analysed by the same rules.  ``breaks`` variants must be reported (by the
named rule, for the named property); ``preserves`` variants must stay silent.
Nothing is written to disk and nothing from /repo is executed."""
import os
import sys
import time
from concurrent.futures import ProcessPoolExecutor

from ..ctx import Ctx
from ..model import AnalysisError, Model
from .. import props as P


def analyse_variant(texts, pids):
    """-> {pid: (status, [(rule, key, detail)])}"""
    from ..check import gather
    from .. import report as R
    model = Model.load(overrides=texts)
    ctx = Ctx(model)
    known = R.load_known()
    out = {}
    for pid in pids:
        obs, errs, _ = gather(ctx, pid)
        viol = [(o.rule, o.key, o.detail) for o in obs
                if o.verdict == "violation" and
                R.match_known(o, pid, known) is None]
        status = 1 if viol else (2 if errs else 0)
        out[pid] = (status, viol, errs)
    return out


def apply_mut(mut, base_texts):
    """-> new texts dict (only changed modules) or None if not applicable."""
    try:
        return mut.apply(dict(base_texts))
    except LookupError:
        return None


def run_one(args):
    mut_id, pids = args
    from .corpus import CORPUS
    mut = CORPUS[mut_id]
    base = Model.load().texts()
    t0 = time.time()
    try:
        new = apply_mut(mut, base)
        if new is None:
            return mut_id, "skipped", "anchor text not present", 0.0
        changed = {k: v for k, v in new.items() if base.get(k) != v}
        if not changed:
            return mut_id, "skipped", "no change", 0.0
        import ast
        for k, v in changed.items():
            ast.parse(v)
        res = analyse_variant(changed, pids)
    except SyntaxError as exc:
        return mut_id, "broken", "variant does not compile: %s" % exc, 0.0
    except AnalysisError as exc:
        res = {pid: (2, [], [("-", str(exc))]) for pid in pids}
    except Exception as exc:          # checker crashed on the variant
        import traceback
        return (mut_id, "crash", traceback.format_exc()[-600:],
                time.time() - t0)
    if mut.kind == "breaks":
        hits = []
        want_props = [p_ for p_ in mut.props if p_ in pids]
        for pid in want_props:
            st, viol, errs = res.get(pid, (0, [], []))
            for rule, key, detail in viol:
                if not mut.rules or any(rule.startswith(r)
                                        for r in mut.rules):
                    hits.append((pid, rule, key))
        missed = [pid for pid in want_props
                  if not any(h[0] == pid for h in hits)]
        if missed:
            info = {pid: res.get(pid) for pid in missed}
            return (mut_id, "missed", "not reported for %s: %s" % (
                missed, str(info)[:500]), time.time() - t0)
        return mut_id, "caught", str(hits[:3]), time.time() - t0
    else:
        noisy = {pid: r for pid, r in res.items() if r[0] != 0}
        if noisy:
            return (mut_id, "false-alarm", str(noisy)[:700],
                    time.time() - t0)
        return mut_id, "silent", "", time.time() - t0


def run_corpus(pids=None, kinds=("breaks", "preserves"), jobs=None,
               only=None):
    from .corpus import CORPUS
    work = []
    for mid, mut in CORPUS.items():
        if only and mid not in only:
            continue
        if mut.kind not in kinds:
            continue
        if mut.kind == "breaks":
            want = [p for p in mut.props if p in P.PROPS]
            if pids is not None:
                want = [p for p in want if p in pids]
            if not want:
                continue
        else:
            want = sorted(P.PROPS) if pids is None else [
                p for p in pids if p in P.PROPS]
        work.append((mid, want))
    jobs = jobs or min(16, os.cpu_count() or 4)
    results = []
    if jobs == 1 or len(work) <= 1:
        results = [run_one(w) for w in work]
    else:
        with ProcessPoolExecutor(max_workers=jobs) as ex:
            results = list(ex.map(run_one, work))
    return results


def summarize(results):
    tally = {}
    for mid, st, info, dt in results:
        tally[st] = tally.get(st, 0) + 1
    bad = [(mid, st, info) for mid, st, info, dt in results
           if st in ("missed", "false-alarm", "crash", "broken")]
    return tally, bad


def canaries(pid, tier, ctx=None):
    """Quick tier: the canary mutations of this property (one per rule with
    an expected-zero finding count) must be reported.  Thorough tier: the
    whole corpus restricted to this property, plus all ``preserves``.
    Returns (status, info dict)."""
    from .corpus import CORPUS
    if tier == "quick":
        ids = [mid for mid, m in CORPUS.items()
               if m.kind == "breaks" and pid in m.props and m.canary]
        results = run_corpus([pid], ("breaks",), only=set(ids)) if ids else []
    else:
        results = run_corpus([pid], ("breaks", "preserves"))
    tally, bad = summarize(results)
    info = {"tier": tier, "variants": len(results), "tally": tally,
            "failures": [{"id": a, "status": b, "info": c}
                         for a, b, c in bad]}
    return (2 if bad else 0), info


def self_check():
    import compileall
    here = os.path.dirname(os.path.dirname(os.path.abspath(__file__)))
    ok = compileall.compile_dir(here, quiet=1)
    if not ok:
        print("ANALYSIS-ERROR checker does not compile")
        return 2
    m = Model.load()
    print("self-check: checker compiles; model loads %d modules, %d "
          "functions" % (len(m.modules), len(m.functions)))
    return 0


def main(argv=None):
    import argparse
    ap = argparse.ArgumentParser()
    ap.add_argument("--property", action="append")
    ap.add_argument("--only", action="append")
    ap.add_argument("--kind", action="append")
    ap.add_argument("--jobs", type=int)
    ap.add_argument("-v", action="store_true")
    a = ap.parse_args(argv)
    t0 = time.time()
    results = run_corpus(a.property, tuple(a.kind) if a.kind else (
        "breaks", "preserves"), a.jobs, set(a.only) if a.only else None)
    tally, bad = summarize(results)
    for mid, st, info, dt in results:
        if a.v or st not in ("caught", "silent"):
            print("%-12s %-44s %5.1fs %s" % (st, mid, dt, info[:900]))
    print("corpus: %s in %.1fs" % (tally, time.time() - t0))
    return 2 if bad else 0


if __name__ == "__main__":
    sys.exit(main())
