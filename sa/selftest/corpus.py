"""Self-validation corpus: source transformers over the *current* text of
the package.  ``breaks`` = a realistic still-compiling edit that breaks the
property (the named rule must report it); ``preserves`` = a
behaviour-preserving edit (every rule must stay silent).  A transformer whose
anchor text is not in the current tree raises LookupError and is skipped."""
import re


class Mut:
    def __init__(self, mid, kind, props, rules, edits, canary=False,
                 note=""):
        self.id = mid
        self.kind = kind
        self.props = props
        self.rules = rules
        self.edits = edits        # list of (module, old, new[, count])
        self.canary = canary
        self.note = note

    def apply(self, texts):
        for ed in self.edits:
            if callable(ed):
                texts = ed(texts)
                continue
            mod, old, new = ed[0], ed[1], ed[2]
            count = ed[3] if len(ed) > 3 else 1
            src = texts[mod]
            if isinstance(old, re.Pattern):
                if not old.search(src):
                    raise LookupError(old.pattern)
                src = old.sub(new, src, count=count or 0)
            else:
                n = src.count(old)
                if n == 0 or (count and n < count):
                    raise LookupError(old)
                if count == 0:
                    src = src.replace(old, new)
                elif count == 1 and n != 1:
                    # ambiguous anchor: use the first occurrence
                    src = src.replace(old, new, 1)
                else:
                    src = src.replace(old, new, count)
            texts[mod] = src
        return texts


CORPUS = {}


def B(mid, props, rules, *edits, canary=False, note=""):
    assert mid not in CORPUS, mid
    CORPUS[mid] = Mut(mid, "breaks", tuple(props), tuple(rules), list(edits),
                      canary, note)


def K(mid, *edits, note=""):
    assert mid not in CORPUS, mid
    CORPUS[mid] = Mut(mid, "preserves", (), (), list(edits), False, note)


# ============================================================== C15 =======
B("c15-drop-key-days-in-month", ["C15"], ["R04"],
  ("data", "def _get_days_in_month(month_of_year, year, _):",
   "def _get_days_in_month(month_of_year, year):"),
  ("data", "return _get_days_in_month(month_of_year, year, CALENDAR.mode)",
   "return _get_days_in_month(month_of_year, year)"), canary=True)
B("c15-const-key-weeks", ["C15"], ["R04"],
  ("data", "return _get_weeks_in_year(year, CALENDAR.mode)",
   "return _get_weeks_in_year(year, None)"))
B("c15-drop-key-iter-months", ["C15"], ["R04"],
  ("data", "        is_leap_year, month_of_year, day_of_month, CALENDAR.mode, in_reverse)",
   "        is_leap_year, month_of_year, day_of_month, None, in_reverse)"))
B("c15-cache-on-wrapper", ["C15"], ["R04"],
  ("data", "def get_days_in_month(month_of_year, year=\"leap\"):",
   "@lru_cache(maxsize=100000)\ndef get_days_in_month(month_of_year, year=\"leap\"):"))
B("c15-new-unkeyed-helper", ["C15"], ["R04"],
  ("data", "def get_days_in_year(year):",
   "@lru_cache(maxsize=None)\ndef _year_seconds(year):\n"
   "    return get_days_in_year(year) * CALENDAR.SECONDS_IN_DAY\n\n\n"
   "def get_days_in_year(year):"))
B("c15-default-arg-capture", ["C15"], ["R05"],
  ("data", "def get_days_in_year_range(start_year, end_year):",
   "def get_days_in_year_range(start_year, end_year,\n"
   "                           _n=CALENDAR.DAYS_IN_YEAR):"), canary=True)
B("c15-module-const-capture", ["C15"], ["R05"],
  ("data", "TIMEPOINT_DUMPER_MAP = {",
   "_MONTHS = CALENDAR.DAYS_IN_MONTHS\n\n\nTIMEPOINT_DUMPER_MAP = {"))
B("c15-second-writer", ["C15"], ["R05"],
  ("datetimeoper", "        Calendar.default().set_mode(calendar_mode)",
   "        Calendar.default().set_mode(calendar_mode)\n"
   "        Calendar.default().DAYS_IN_YEAR_LEAP = 366"))
B("c15-stale-read-in-set-mode", ["C15"], ["R06"],
  ("data", "        self.DAYS_IN_YEAR = sum(self.DAYS_IN_MONTHS)\n", ""),
  ("data", "        self.MONTHS_IN_YEAR = len(self.DAYS_IN_MONTHS)\n",
   "        self.MONTHS_IN_YEAR = len(self.DAYS_IN_MONTHS)\n"
   "        self.HOURS_IN_YEAR = self.DAYS_IN_YEAR * self.HOURS_IN_DAY\n"
   "        self.DAYS_IN_YEAR = sum(self.DAYS_IN_MONTHS)\n"), canary=True)
B("c15-conditional-derived", ["C15"], ["R06"],
  ("data", "        self.DAYS_IN_YEAR_LEAP = sum(self.DAYS_IN_MONTHS_LEAP)",
   "        if mode == self.MODE_GREGORIAN:\n"
   "            self.DAYS_IN_YEAR_LEAP = sum(self.DAYS_IN_MONTHS_LEAP)"))
B("c15-wrong-table-360", ["C15"], ["R07"],
  ("data", "DAYS_IN_MONTHS_360 = 12 * (30,)",
   "DAYS_IN_MONTHS_360 = 12 * (31,)"), canary=True)
B("c15-365-maps-to-366", ["C15"], ["R07"],
  ("data", "MODE_365_DAY: (DAYS_IN_MONTHS_365, None),",
   "MODE_365_DAY: (DAYS_IN_MONTHS_366, None),"))
B("c15-leap-sum-wrong-table", ["C15"], ["R07"],
  ("data", "self.DAYS_IN_YEAR_LEAP = sum(self.DAYS_IN_MONTHS_LEAP)",
   "self.DAYS_IN_YEAR_LEAP = sum(self.DAYS_IN_MONTHS)"))
B("c15-leap-table-order", ["C15"], ["R07"],
  ("data", "[(4, True), (100, False), (400, True)]",
   "[(400, True), (100, False), (4, True)]"))
B("c15-leap-early-break", ["C15"], ["R07"],
  ("data", "            year_is_leap = is_leap_factor\n    return year_is_leap",
   "            year_is_leap = is_leap_factor\n            break\n    return year_is_leap"))
K("c15k-new-keyed-helper",
  ("data", "def get_days_in_year(year):",
   "def get_seconds_in_year(year):\n"
   "    return _get_seconds_in_year(year, CALENDAR.mode)\n\n\n"
   "@lru_cache(maxsize=None)\n"
   "def _get_seconds_in_year(year, mode_key):\n"
   "    return get_days_in_year(year) * CALENDAR.SECONDS_IN_DAY\n\n\n"
   "def get_days_in_year(year):"))
K("c15k-key-via-local",
  ("data", "    return _get_days_in_year(year, CALENDAR.mode)",
   "    active = CALENDAR.mode\n    return _get_days_in_year(year, active)"))
K("c15k-key-keyword",
  ("data", "    return _get_weeks_in_year(year, CALENDAR.mode)",
   "    return _get_weeks_in_year(year, _=CALENDAR.mode)"))
K("c15k-reorder-set-mode",
  ("data", "        self.DAYS_IN_YEAR_LEAP = sum(self.DAYS_IN_MONTHS_LEAP)\n"
           "        self.MAX_DAYS_IN_MONTH = max(self.DAYS_IN_MONTHS)\n",
   "        self.MAX_DAYS_IN_MONTH = max(self.DAYS_IN_MONTHS)\n"
   "        self.DAYS_IN_YEAR_LEAP = sum(self.DAYS_IN_MONTHS_LEAP)\n"))
K("c15k-table-respelled",
  ("data", "DAYS_IN_MONTHS_360 = 12 * (30,)",
   "DAYS_IN_MONTHS_360 = (30,) * 12"))


# ===================================================== C01 / C05 / C06 / C20
# --- R09 carry agreement
B("c01-ordinal-carry-next-year", ["C01", "C06", "C20"], ["R09"],
  ("data", "                days_in_this_year = get_days_in_year(self._year)\n"
           "                self._day_of_year -= days_in_this_year",
   "                days_in_next_year = get_days_in_year(self._year + 1)\n"
   "                self._day_of_year -= days_in_next_year"),
  canary=True, note="revert of fix D1")
B("c01-week-carry-next-year", ["C01", "C06", "C20"], ["R09"],
  ("data", "weeks_in_this_year = get_weeks_in_year(self._year)\n",
   "weeks_in_this_year = get_weeks_in_year(self._year + 1)\n"))
B("c01-ordinal-borrow-this-year", ["C01", "C06", "C20"], ["R09"],
  ("data", "days_in_last_year = get_days_in_year(self._year - 1)",
   "days_in_last_year = get_days_in_year(self._year)"))
B("c01-week-borrow-after-decrement", ["C01", "C06", "C20"], ["R09"],
  ("data", "                weeks_in_last_year = get_weeks_in_year(self._year - 1)\n"
           "                self._week_of_year += weeks_in_last_year\n"
           "                self._year -= 1\n",
   "                self._year -= 1\n"
   "                weeks_in_last_year = get_weeks_in_year(self._year - 1)\n"
   "                self._week_of_year += weeks_in_last_year\n"))
B("c01-ordinal-carry-uses-weeks", ["C01", "C06", "C20"], ["R10", "R09"],
  ("data", "            while self._day_of_year > get_days_in_year(self._year):\n"
           "                days_in_this_year = get_days_in_year(self._year)",
   "            while self._day_of_year > get_days_in_year(self._year):\n"
   "                days_in_this_year = get_weeks_in_year(self._year)"))
B("c01-hour-block-before-minute-block", ["C01", "C06", "C20"], ["R09.carry-order"],
  (lambda texts: _swap_blocks(
      texts, "data",
      "        if self._minute_of_hour is not None:\n"
      "            num_hours, minutes = divmod(self._minute_of_hour,\n"
      "                                        CALENDAR.MINUTES_IN_HOUR)\n"
      "            self._hour_of_day += num_hours\n"
      "            self._minute_of_hour = minutes\n",
      "        if self._hour_of_day is not None:\n"
      "            num_days, hours = divmod(self._hour_of_day, CALENDAR.HOURS_IN_DAY)\n"
      "            num_days = int(num_days)\n"
      "            if self._day_of_week is not None:\n"
      "                self._day_of_week += num_days\n"
      "            elif self._day_of_month is not None:\n"
      "                self._day_of_month += num_days\n"
      "            elif self._day_of_year is not None:\n"
      "                self._day_of_year += num_days\n"
      "            self._hour_of_day = hours\n")))
K("c01k-rename-carry-temp",
  ("data", "                days_in_this_year = get_days_in_year(self._year)\n"
           "                self._day_of_year -= days_in_this_year",
   "                n_days = get_days_in_year(self._year)\n"
   "                self._day_of_year -= n_days"))
K("c01k-inline-carry-temp",
  ("data", "                days_in_this_year = get_days_in_year(self._year)\n"
           "                self._day_of_year -= days_in_this_year",
   "                self._day_of_year -= get_days_in_year(self._year)"))
K("c01k-carry-after-year-step",
  ("data", "                days_in_this_year = get_days_in_year(self._year)\n"
           "                self._day_of_year -= days_in_this_year\n"
           "                self._year += 1\n",
   "                self._year += 1\n"
   "                self._day_of_year -= get_days_in_year(self._year - 1)\n"))
# --- R11 leap polarity (6 sites, both directions)
B("c05-leap-swap-add-months", ["C05"], ["R11"],
  (lambda texts: _nth_replace(
      texts, "data",
      "                max_day_in_new_month = (\n"
      "                    CALENDAR.DAYS_IN_MONTHS[month_index])",
      "                max_day_in_new_month = (\n"
      "                    CALENDAR.DAYS_IN_MONTHS_LEAP[month_index])", 0)),
  canary=True, note="the property's own example")
B("c05-leap-swap-add-years", ["C05"], ["R11"],
  ("data", "                    max_day_in_new_month = (\n"
           "                        CALENDAR.DAYS_IN_MONTHS_LEAP[month_index])",
   "                    max_day_in_new_month = (\n"
   "                        CALENDAR.DAYS_IN_MONTHS[month_index])"))
B("c01-leap-swap-tick-over-dom", ["C01", "C05", "C06"], ["R11"],
  ("data", "                max_day_in_month = CALENDAR.DAYS_IN_MONTHS_LEAP[month_index]",
   "                max_day_in_month = CALENDAR.DAYS_IN_MONTHS[month_index]"))
B("c03-leap-swap-days-in-year", ["C03"], ["R11"],
  ("data", "        return CALENDAR.DAYS_IN_YEAR_LEAP\n    return CALENDAR.DAYS_IN_YEAR",
   "        return CALENDAR.DAYS_IN_YEAR\n    return CALENDAR.DAYS_IN_YEAR_LEAP"))
B("c03-leap-swap-days-in-month", ["C03"], ["R11"],
  ("data", "        return CALENDAR.DAYS_IN_MONTHS_LEAP[month_index]\n    return CALENDAR.DAYS_IN_MONTHS[month_index]",
   "        return CALENDAR.DAYS_IN_MONTHS[month_index]\n    return CALENDAR.DAYS_IN_MONTHS[month_index]"))
B("c03-leap-swap-iter-months", ["C03"], ["R11"],
  ("data", "    source = CALENDAR.INDEXED_DAYS_IN_MONTHS\n    if is_leap_year:\n        source = CALENDAR.INDEXED_DAYS_IN_MONTHS_LEAP",
   "    source = CALENDAR.INDEXED_DAYS_IN_MONTHS_LEAP\n    if is_leap_year:\n        source = CALENDAR.INDEXED_DAYS_IN_MONTHS"))
B("c03-leap-negated-test", ["C03"], ["R11"],
  ("data", "    if get_is_leap_year(year):\n        return CALENDAR.DAYS_IN_YEAR_LEAP",
   "    if not get_is_leap_year(year):\n        return CALENDAR.DAYS_IN_YEAR_LEAP"))
K("c03k-leap-negated-polarity",
  ("data", "    if get_is_leap_year(year):\n        return CALENDAR.DAYS_IN_YEAR_LEAP\n    return CALENDAR.DAYS_IN_YEAR",
   "    if not get_is_leap_year(year):\n        return CALENDAR.DAYS_IN_YEAR\n    return CALENDAR.DAYS_IN_YEAR_LEAP"))
K("c05k-leap-ifexp",
  ("data", "            if get_is_leap_year(new._year):\n"
           "                max_day_in_new_month = (\n"
           "                    CALENDAR.DAYS_IN_MONTHS_LEAP[month_index])\n"
           "            else:\n"
           "                max_day_in_new_month = (\n"
           "                    CALENDAR.DAYS_IN_MONTHS[month_index])\n",
   "            max_day_in_new_month = (\n"
   "                CALENDAR.DAYS_IN_MONTHS_LEAP[month_index]\n"
   "                if get_is_leap_year(new._year)\n"
   "                else CALENDAR.DAYS_IN_MONTHS[month_index])\n"))
# --- R10 field / length agreement
B("c05-week53-clamp-days-in-year", ["C05"], ["R10"],
  ("data", "                max_weeks_in_year = get_weeks_in_year(new._year)",
   "                max_weeks_in_year = get_days_in_year(new._year)"))
B("c05-clamp-old-year", ["C05"], ["R10"],
  ("data", "                max_days_in_year = get_days_in_year(new._year)",
   "                max_days_in_year = get_days_in_year(self._year)"))
B("c05-clamp-old-year-leap-test", ["C05"], ["R10"],
  (lambda texts: _nth_replace(
      texts, "data", "            if get_is_leap_year(new._year):",
      "            if get_is_leap_year(self._year):", 1)))
B("c09-doy-bounded-by-weeks", ["C09"], ["R10"],
  ("data", "min_val=1, max_val=get_days_in_year(self._year))",
   "min_val=1, max_val=get_weeks_in_year(self._year))"))


def _nth_replace(texts, mod, old, new, n):
    src = texts[mod]
    idx = -1
    for _ in range(n + 1):
        idx = src.find(old, idx + 1)
        if idx < 0:
            raise LookupError(old)
    texts[mod] = src[:idx] + new + src[idx + len(old):]
    return texts


def _swap_blocks(texts, mod, a, b):
    src = texts[mod]
    ia, ib = src.find(a), src.find(b)
    if ia < 0 or ib < 0 or ia + len(a) != ib:
        raise LookupError("adjacent blocks")
    texts[mod] = src[:ia] + b + a + src[ib + len(b):]
    return texts


# ======================================================= C02 / C11 / C14 ====
B("c14-eq-ignores-interval", ["C14"], ["R16"],
  ("data", "        for attr in [\"_repetitions\", \"_start_point\", \"_end_point\", \"_duration\",\n"
           "                     \"_min_point\", \"_max_point\"]:",
   "        for attr in [\"_repetitions\", \"_start_point\", \"_end_point\",\n"
   "                     \"_min_point\", \"_max_point\"]:"),
  canary=True, note="the property's own example")
B("c14-hash-includes-format", ["C14"], ["R16"],
  ("data", "        return hash((self._repetitions, self._start_point, self._end_point,\n"
           "                     self._duration, self._min_point, self._max_point))",
   "        return hash((self._repetitions, self._start_point, self._end_point,\n"
   "                     self._duration, self._format_number, self._max_point))"))
B("c11-eq-raw-days", ["C11"], ["R16"],
  ("data", "                    return (self._get_non_nominal_seconds() ==\n"
           "                            other._get_non_nominal_seconds())",
   "                    return (self._days == other._days and\n"
   "                            self._get_non_nominal_seconds() ==\n"
   "                            other._get_non_nominal_seconds())"),
  canary=True)
B("c11-hash-raw-hours", ["C11"], ["R16"],
  ("data", "        return hash(\n            (self._years, self._months, self._get_non_nominal_seconds()))",
   "        return hash(\n            (self._years, self._months, self._hours,\n"
   "             self._get_non_nominal_seconds()))"))
B("c11-hash-week-shape", ["C11"], ["R16"],
  ("data", "            return hash((0, 0, self._get_non_nominal_seconds()))",
   "            return hash((self._weeks, self._get_non_nominal_seconds()))"))
B("c11-le-uses-seconds", ["C11"], ["R16"],
  ("data", "            return self.get_days_and_seconds() <= other.get_days_and_seconds()",
   "            return self.get_seconds() <= other.get_seconds()"))
B("c11-gt-wrong-operator", ["C11"], ["R16"],
  ("data", "            return self.get_days_and_seconds() > other.get_days_and_seconds()",
   "            return self.get_days_and_seconds() >= other.get_days_and_seconds()"))
B("c11-add-drops-minutes", ["C11"], ["R17"],
  ("data", "            new._minutes += other._minutes\n", ""), canary=True)
B("c11-add-mixes-slots", ["C11"], ["R17"],
  ("data", "            new._minutes += other._minutes\n",
   "            new._minutes += other._seconds\n"))
B("c11-nonnominal-skips-hours", ["C11"], ["R17"],
  ("data", "        return (self._days * CALENDAR.SECONDS_IN_DAY +\n"
           "                self._hours * CALENDAR.SECONDS_IN_HOUR +\n",
   "        return (self._days * CALENDAR.SECONDS_IN_DAY +\n"))
B("c02-gt-routes-ge", ["C02"], ["R16"],
  ("data", "        return self._cmp(other, \"gt\")",
   "        return self._cmp(other, \"ge\")"), canary=True)
B("c02-custom-ne", ["C02"], ["R16"],
  ("data", "    def __lt__(self, other: \"TimePoint\") -> bool:\n        return self._cmp(other, \"lt\")",
   "    def __ne__(self, other: \"TimePoint\") -> bool:\n        return self < other\n\n"
   "    def __lt__(self, other: \"TimePoint\") -> bool:\n        return self._cmp(other, \"lt\")"))
B("c02-reflexive-shortcut-lt", ["C02"], ["R16"],
  ("data", "return True if op in [\"eq\", \"le\", \"ge\"] else False",
   "return True if op in [\"eq\", \"le\", \"ge\", \"lt\"] else False"))
B("c02-operands-swapped", ["C02"], ["R16"],
  ("data", "        return _operator_map[op](my_datetime, other_datetime)",
   "        return _operator_map[op](other_datetime, my_datetime)"))
B("c16-copy-shares-zone", ["C16"], ["R17"],
  ("data", "        new_timepoint._time_zone = self._time_zone._copy()\n", ""))
K("c14k-eq-explicit",
  ("data", "        for attr in [\"_repetitions\", \"_start_point\", \"_end_point\", \"_duration\",\n"
           "                     \"_min_point\", \"_max_point\"]:\n"
           "            if getattr(self, attr) != getattr(other, attr):\n"
           "                return False\n"
           "        return True",
   "        return (self._repetitions == other._repetitions and\n"
   "                self._start_point == other._start_point and\n"
   "                self._end_point == other._end_point and\n"
   "                self._duration == other._duration and\n"
   "                self._min_point == other._min_point and\n"
   "                self._max_point == other._max_point)"))
K("c11k-ordering-reordered-methods",
  ("data", "    def __rmul__(self, other):\n        return self.__mul__(other)",
   "    def __rmul__(self, other):\n        return self * other"))


# ======================================================= C12 / C13 / C14 ====
B("c13-first-after-unguarded", ["C13"], ["R19"],
  ("data", "                next_timepoint = timepoint + (self._duration - Duration(\n"
           "                    seconds=floor(seconds_since)))\n"
           "                if self._get_is_in_bounds(next_timepoint):\n"
           "                    return next_timepoint\n"
           "                return None\n",
   "                return timepoint + (self._duration - Duration(\n"
   "                    seconds=floor(seconds_since)))\n"),
  canary=True, note="revert of fix D2")
B("c13-get-prev-unguarded", ["C13"], ["R19"],
  ("data", "        prev_timepoint = timepoint - self._duration\n"
           "        if self._get_is_in_bounds(prev_timepoint):\n"
           "            return prev_timepoint\n"
           "        return None",
   "        prev_timepoint = timepoint - self._duration\n"
   "        return prev_timepoint"))
B("c13-guard-wrong-variable", ["C13"], ["R19"],
  ("data", "        next_timepoint = timepoint + self._duration\n"
           "        if self._get_is_in_bounds(next_timepoint):",
   "        next_timepoint = timepoint + self._duration\n"
   "        if self._get_is_in_bounds(timepoint):"))
B("c13-early-exit-flipped", ["C13"], ["R19"],
  ("data", "            if self._end_point is None and iter_timepoint > timepoint:",
   "            if self._end_point is None and iter_timepoint < timepoint:"))
B("c13-early-exit-wrong-slot", ["C13"], ["R19"],
  ("data", "            if self._start_point is None and iter_timepoint < timepoint:",
   "            if self._end_point is None and iter_timepoint < timepoint:"))
B("c13-getitem-closed-form", ["C13"], ["R19"],
  ("data", "        for i, point in enumerate(self.__iter__()):\n"
           "            if index == i:\n"
           "                return point\n",
   "        if self._start_point is not None and self._duration is not None:\n"
   "            return self._start_point + self._duration * index\n"
   "        for i, point in enumerate(self.__iter__()):\n"
   "            if index == i:\n"
   "                return point\n"))
B("c13-get-prev-adds", ["C13", "C12"], ["R19"],
  ("data", "        prev_timepoint = timepoint - self._duration",
   "        prev_timepoint = timepoint + self._duration"))
B("c12-iter-from-end-when-start-given", ["C12"], ["R18"],
  ("data", "        else:\n            point = self._start_point\n            in_reverse = False",
   "        else:\n            point = self._end_point\n            in_reverse = False"))
B("c12-iter-direction-flipped", ["C12"], ["R18"],
  ("data", "            if in_reverse:\n                point = self.get_prev(point)\n"
           "            else:\n                point = self.get_next(point)",
   "            if in_reverse:\n                point = self.get_next(point)\n"
   "            else:\n                point = self.get_prev(point)"), canary=True)
B("c12-single-point-branch-dropped", ["C12"], ["R18"],
  ("data", "        if self._repetitions == 1 or not self._duration:\n"
           "            if self._get_is_in_bounds(point):\n"
           "                yield point\n"
           "            point = None\n", ""))
B("c12-single-point-keeps-walking", ["C12"], ["R18"],
  ("data", "                yield point\n            point = None\n",
   "                yield point\n"))
B("c14-single-point-shift-loses-anchor", ["C14"], ["R18"],
  ("data", "                if self._start_point is None:\n"
           "                    self._start_point = self._end_point\n"
           "                if self._start_point is None:\n"
           "                    raise BadInputError(\n"
           "                        BadInputError.RECURRENCE, [i[:2] for i in inputs])\n",
   ""), canary=True, note="revert of fix D3")
B("c14-add-fmt4-passes-start", ["C14"], ["R18"],
  ("data", "            kwargs = {\"end_point\": self._end_point + other,\n"
           "                      \"duration\": self._duration}",
   "            kwargs = {\"start_point\": self._end_point + other,\n"
   "                      \"duration\": self._duration}"))
B("c14-add-drops-repetitions", ["C14"], ["R18"],
  ("data", "            repetitions=self._repetitions, **kwargs,",
   "            **kwargs,"))
B("c14-add-fmt1-uses-end-not-second", ["C14"], ["R18"],
  ("data", "                      \"end_point\": self._second_point + other}",
   "                      \"end_point\": self._end_point + other}"))
B("c14-add-unshifted-anchor", ["C14"], ["R18"],
  ("data", "            kwargs = {\"start_point\": self._start_point + other,\n"
           "                      \"duration\": self._duration}",
   "            kwargs = {\"start_point\": self._start_point,\n"
   "                      \"duration\": self._duration}"))
K("c14k-add-explicit-branches",
  ("data", "        return self.__class__(\n"
           "            repetitions=self._repetitions, **kwargs,\n"
           "            min_point=self._min_point, max_point=self._max_point)",
   "        kwargs[\"repetitions\"] = self._repetitions\n"
   "        return TimeRecurrence(\n"
   "            min_point=self._min_point, max_point=self._max_point, **kwargs)"))
K("c13k-first-after-renamed",
  ("data", "                next_timepoint = timepoint + (self._duration - Duration(\n"
           "                    seconds=floor(seconds_since)))\n"
           "                if self._get_is_in_bounds(next_timepoint):\n"
           "                    return next_timepoint\n"
           "                return None\n",
   "                candidate = timepoint + (self._duration - Duration(\n"
   "                    seconds=floor(seconds_since)))\n"
   "                if not self._get_is_in_bounds(candidate):\n"
   "                    return None\n"
   "                return candidate\n"))
K("c13k-is-valid-iter-self",
  ("data", "        for iter_timepoint in self.__iter__():",
   "        for iter_timepoint in self:"))


# ================================================================ C16 ======
B("c16-add-works-on-self", ["C16"], ["R01", "R02"],
  ("data", "        duration = other\n        if duration.get_is_in_weeks():\n"
           "            duration = duration.to_days()\n        new = self._copy()",
   "        duration = other\n        if duration.get_is_in_weeks():\n"
   "            duration = duration.to_days()\n        new = self"),
  canary=True)
B("c16-add-months-works-on-self", ["C16"], ["R01", "R02"],
  ("data", "        if num_months == 0:\n            return self\n        new = self._copy()",
   "        if num_months == 0:\n            return self\n        new = self"))
B("c16-to-days-mutates-self", ["C16"], ["R01"],
  ("data", "        if self.get_is_in_weeks():\n            new = self._copy()\n            for attribute in",
   "        if self.get_is_in_weeks():\n            new = self\n            for attribute in"))
B("c16-duration-add-mutates-self", ["C16"], ["R01"],
  ("data", "    def __add__(self, other):\n        new = self._copy()\n        if isinstance(other, Duration):",
   "    def __add__(self, other):\n        new = self\n        if isinstance(other, Duration):"))
B("c16-tick-over-in-to-time-zone", ["C16"], ["R02"],
  ("data", "        if dest_time_zone._unknown:\n            return self\n",
   "        if dest_time_zone._unknown:\n            return self\n        self._tick_over()\n"))
B("c16-conversion-result-written", ["C16"], ["R01"],
  ("data", "    def to_hour_minute_second(self) -> \"TimePoint\":\n"
           "        \"\"\"Return a copy of this TimePoint with any time fractions expanded\n"
           "        into hours, minutes and seconds.\"\"\"\n"
           "        new = self._copy()",
   "    def to_hour_minute_second(self) -> \"TimePoint\":\n"
   "        \"\"\"Return a copy of this TimePoint with any time fractions expanded\n"
   "        into hours, minutes and seconds.\"\"\"\n"
   "        new = self.to_calendar_date()"),
  note="to_calendar_date may return self; writing its result mutates the receiver")
B("c16-iadd-defined", ["C16"], ["R02"],
  ("data", "    def __rmul__(self, other):\n        return self.__mul__(other)",
   "    def __rmul__(self, other):\n        return self.__mul__(other)\n\n"
   "    def __iadd__(self, other):\n        self._seconds += other._seconds\n        return self"))
B("c16-public-mutator", ["C16"], ["R02", "R01"],
  ("data", "    def get_props(self) -> list:",
   "    def normalise(self):\n        \"\"\"Normalise in place.\"\"\"\n        self._tick_over()\n\n"
   "    def get_props(self) -> list:"))
B("c16-cached-list-reversed", ["C16"], ["R03"],
  ("data", "            for month, day in iter_months_days(\n"
           "                    self._year,\n"
           "                    month_of_year=self._month_of_year,\n"
           "                    day_of_month=1, in_reverse=True):",
   "            days = iter_months_days(\n"
   "                self._year, month_of_year=self._month_of_year,\n"
   "                day_of_month=1)\n"
   "            days.reverse()\n"
   "            for month, day in days:"), canary=True)
B("c16-zone-written-through-alias", ["C16"], ["R01"],
  ("data", "        new = self + (dest_time_zone - self._time_zone)\n"
           "        new._time_zone = dest_time_zone",
   "        new = self + (dest_time_zone - self._time_zone)\n"
   "        new._time_zone = dest_time_zone\n"
   "        dest_time_zone._unknown = False"))
B("c16-recurrence-setter", ["C16"], ["R01", "R02"],
  ("data", "    def get_is_valid(self, timepoint: \"TimePoint\") -> bool:",
   "    def set_max_point(self, point):\n        self._max_point = point\n\n"
   "    def get_is_valid(self, timepoint: \"TimePoint\") -> bool:"))
B("c16-parser-patches-timepoint", ["C16"], ["R01"],
  ("parsers", "            if timepoint.get_is_week_date():\n"
              "                raise ISO8601SyntaxError(\"duration\", expression)",
   "            if timepoint.get_is_week_date():\n"
   "                raise ISO8601SyntaxError(\"duration\", expression)\n"
   "            timepoint._dump_format = None"),
  note="legal today only because the point is fresh from the parser; but a store from another module")
K("c16k-add-rename-working-copy",
  ("data", re.compile(r"(    def add_months\(self, num_months\):.*?)(\n    def _tick_over\()", re.S),
   lambda m: m.group(1).replace("new", "result") + m.group(2)))
K("c16k-copy-explicit-class",
  ("data", "        new = self.__class__(_is_empty_instance=True)",
   "        new = type(self)(_is_empty_instance=True)"))


# ==================================================== R08 / R13 typestate ===
def _drop_nth(texts, mod, anchor_start, anchor_end, needle, n):
    """Delete the n-th occurrence of `needle` between two anchors."""
    src = texts[mod]
    a = src.find(anchor_start)
    b = src.find(anchor_end, a)
    if a < 0 or b < 0:
        raise LookupError(anchor_start)
    seg = src[a:b]
    idx = -1
    for _ in range(n + 1):
        idx = seg.find(needle, idx + 1)
        if idx < 0:
            raise LookupError(needle)
    seg = seg[:idx] + seg[idx + len(needle):]
    texts[mod] = src[:a] + seg + src[b:]
    return texts


_ADD0 = "    def __add__(self, other) -> \"TimePoint\":"
_ADD1 = "    def _copy(self) -> \"TimePoint\":"
_TICK = "            new._tick_over()\n"
for _i, _nm in enumerate(["seconds", "minutes", "hours", "days"]):
    B("c01-add-drop-tick-%s" % _nm, ["C01"], ["R08"],
      (lambda texts, _i=_i: _drop_nth(texts, "data", _ADD0, _ADD1, _TICK, _i)),
      canary=(_i == 2))
_TR0 = "    def add_truncated(self,"
_TR1 = "    def __add__(self, other) -> \"TimePoint\":"
_TTICK = "                new._tick_over()\n"
for _i, _nm in enumerate(["second", "minute", "hour", "weekday", "dom",
                          "doy", "week"]):
    B("c20-search-drop-tick-%s" % _nm, ["C20"], ["R08"],
      (lambda texts, _i=_i: _drop_nth(texts, "data", _TR0, _TR1, _TTICK, _i)),
      canary=(_i == 1))
B("c05-clamp-outside-month-loop", ["C05"], ["R08"],
  ("data", "            if new._day_of_month > max_day_in_new_month:\n"
           "                # For example, when 31 March + 1 month = 30 April.\n"
           "                new._day_of_month = max_day_in_new_month\n"
           "        new._tick_over()",
   "        if new._day_of_month > max_day_in_new_month:\n"
   "            # For example, when 31 March + 1 month = 30 April.\n"
   "            new._day_of_month = max_day_in_new_month\n"
   "        new._tick_over()"), canary=True)
B("c05-month-clamp-dropped", ["C05"], ["R08"],
  ("data", "            if new._day_of_month > max_day_in_new_month:\n"
           "                # For example, when 31 March + 1 month = 30 April.\n"
           "                new._day_of_month = max_day_in_new_month\n", ""))
B("c05-year-clamp-ordinal-dropped", ["C05"], ["R08"],
  ("data", "                if max_days_in_year < new._day_of_year:\n"
           "                    new._day_of_year = max_days_in_year\n",
   "                pass\n"))
B("c05-year-clamp-week-dropped", ["C05"], ["R08"],
  ("data", "                if max_weeks_in_year < new._week_of_year:\n"
           "                    new._week_of_year = max_weeks_in_year\n",
   "                pass\n"))
B("c05-years-before-months", ["C05"], ["R08"],
  (lambda texts: _move_block_after(
      texts, "data",
      "        if duration._months:\n"
      "            # This is the dangerous one...\n"
      "            new = new.add_months(duration._months)\n",
      "                    new._week_of_year = max_weeks_in_year\n")))
B("c05-week-restore-dropped", ["C05", "C01"], ["R13"],
  ("data", "        if was_week_date:\n            new = new.to_week_date()\n", ""),
  canary=True)
B("c05-ordinal-restore-dropped", ["C05", "C01"], ["R13"],
  ("data", "        if was_ordinal_date:\n            new = new.to_ordinal_date()\n", ""))
B("c05-restore-flags-swapped", ["C05"], ["R13"],
  ("data", "            if new.get_is_ordinal_date():\n                was_ordinal_date = True\n"
           "            if new.get_is_week_date():\n                was_week_date = True",
   "            if new.get_is_ordinal_date():\n                was_week_date = True\n"
   "            if new.get_is_week_date():\n                was_ordinal_date = True"))
B("c06-to-time-zone-goes-calendar", ["C06"], ["R13"],
  ("data", "        new = self + (dest_time_zone - self._time_zone)\n",
   "        new = self.to_calendar_date() + (dest_time_zone - self._time_zone)\n"))
B("c03-to-ordinal-keeps-week-slots", ["C03"], ["R13"],
  ("data", "        new._year, new._day_of_year = self.get_ordinal_date()\n"
           "        new._month_of_year, new._day_of_month = (None, None)\n"
           "        new._week_of_year, new._day_of_week = (None, None)",
   "        new._year, new._day_of_year = self.get_ordinal_date()\n"
   "        new._month_of_year, new._day_of_month = (None, None)"),
  canary=True)
B("c03-week-getter-wrong-converter", ["C03"], ["R13"],
  ("data", "            return get_week_date_from_ordinal_date(self._year,\n"
           "                                                   self._day_of_year)",
   "            return get_week_date_from_calendar_date(self._year, 1,\n"
   "                                                    self._day_of_year)"))
B("c03-dispatch-args-swapped", ["C03"], ["R13"],
  ("data", "            return get_calendar_date_from_week_date(self._year,\n"
           "                                                    self._week_of_year,\n"
           "                                                    self._day_of_week)",
   "            return get_calendar_date_from_week_date(self._year,\n"
   "                                                    self._day_of_week,\n"
   "                                                    self._week_of_year)"))
B("c03-to-week-tuple-order", ["C03"], ["R13"],
  ("data", "        new._year, new._week_of_year, new._day_of_week = self.get_week_date()",
   "        new._year, new._day_of_week, new._week_of_year = self.get_week_date()"))
K("c01k-add-reorder-sec-min-blocks",
  (lambda texts: _swap_blocks(
      texts, "data",
      "        if duration._seconds:\n"
      "            if new._second_of_minute is None:\n"
      "                if new._minute_of_hour is None:\n"
      "                    new._hour_of_day += (\n"
      "                        duration._seconds / float(CALENDAR.SECONDS_IN_HOUR))\n"
      "                else:\n"
      "                    new._minute_of_hour += (\n"
      "                        duration._seconds / float(CALENDAR.SECONDS_IN_MINUTE))\n"
      "            else:\n"
      "                new._second_of_minute += duration._seconds\n"
      "            new._tick_over()\n"
      "        # FIXME: self._tick_over() broken for truncated TimePoints: issue #168\n",
      "        if duration._minutes:\n"
      "            if new._minute_of_hour is None:\n"
      "                new._hour_of_day += (\n"
      "                    duration._minutes / float(CALENDAR.MINUTES_IN_HOUR))\n"
      "            else:\n"
      "                new._minute_of_hour += duration._minutes\n"
      "            new._tick_over()\n")))
K("c01k-add-single-final-tick",
  (lambda texts: _single_tick(texts)))
K("c05k-drop-final-tick-add-months",
  ("data", "                new._day_of_month = max_day_in_new_month\n        new._tick_over()\n        if was_ordinal_date:",
   "                new._day_of_month = max_day_in_new_month\n        if was_ordinal_date:"),
  note="after the explicit wrap and clamp nothing is out of range")
K("c05k-clamp-mirrored-compare",
  ("data", "            if new._day_of_month > max_day_in_new_month:\n"
           "                # For example, when 31 March + 1 month = 30 April.",
   "            if max_day_in_new_month < new._day_of_month:\n"
   "                # For example, when 31 March + 1 month = 30 April."))


def _move_block_after(texts, mod, block, after):
    src = texts[mod]
    if src.count(block) != 1 or src.count(after) < 1:
        raise LookupError(block)
    src = src.replace(block, "")
    i = src.find(after) + len(after)
    texts[mod] = src[:i] + block + src[i:]
    return texts


def _single_tick(texts):
    """Drop the per-unit _tick_over() calls of __add__ and normalise once
    after the days block (behaviour-preserving: _tick_over is idempotent
    and carries all units)."""
    src = texts["data"]
    a = src.find(_ADD0)
    b = src.find("        if duration._months:", a)
    if a < 0 or b < 0:
        raise LookupError("__add__")
    seg = src[a:b]
    if seg.count(_TICK) != 4:
        raise LookupError("ticks")
    seg = seg.replace(_TICK, "")
    seg += "        new._tick_over()\n"
    texts["data"] = src[:a] + seg + src[b:]
    return texts


# ================================================== R14 / R15 / R32 zones ===
B("c02-cmp-self-not-rolled", ["C02"], ["R15"],
  ("data", "        this = self._roll_over_24()\n        if this.get_is_calendar_date():",
   "        this = self\n        if this.get_is_calendar_date():"),
  canary=True, note="partial revert of fix D4")
B("c02-cmp-other-not-rolled", ["C02"], ["R15"],
  ("data", "        other = other.to_time_zone(self._time_zone)._roll_over_24()\n        this = self._roll_over_24()\n        if this.get_is_calendar_date():",
   "        other = other.to_time_zone(self._time_zone)\n        this = self._roll_over_24()\n        if this.get_is_calendar_date():"))
B("c02-hash-not-rolled", ["C02"], ["R15"],
  ("data", "        point = self.to_utc()._roll_over_24()", "        point = self.to_utc()"))
B("c04-sub-not-rolled", ["C04"], ["R15"],
  ("data", "            this = self._roll_over_24()\n            my_year, my_day_of_year = this.get_ordinal_date()",
   "            this = self\n            my_year, my_day_of_year = this.get_ordinal_date()"),
  canary=True)
B("c02-roll-over-without-tick", ["C02", "C04"], ["R15"],
  ("data", "        new = self._copy()\n        new._tick_over()\n        return new\n\n    def get_props",
   "        new = self._copy()\n        return new\n\n    def get_props"))
B("c02-cmp-no-rezone", ["C02"], ["R14"],
  ("data", "        other = other.to_time_zone(self._time_zone)._roll_over_24()\n        this = self._roll_over_24()\n        if this.get_is_calendar_date():",
   "        other = other._roll_over_24()\n        this = self._roll_over_24()\n        if this.get_is_calendar_date():"),
  canary=True)
B("c02-cmp-read-before-rezone", ["C02"], ["R14", "R15"],
  ("data", "        other = other.to_time_zone(self._time_zone)._roll_over_24()\n"
           "        this = self._roll_over_24()\n"
           "        if this.get_is_calendar_date():\n"
           "            my_date = this.get_calendar_date()\n"
           "            other_date = other.get_calendar_date()\n",
   "        this = self._roll_over_24()\n"
   "        if this.get_is_calendar_date():\n"
   "            my_date = this.get_calendar_date()\n"
   "            other_date = other.get_calendar_date()\n"
   "        other = other.to_time_zone(self._time_zone)._roll_over_24()\n"
   "        if this.get_is_calendar_date():\n"
   "            pass\n"))
B("c02-hash-no-utc", ["C02"], ["R14"],
  ("data", "        point = self.to_utc()._roll_over_24()", "        point = self._roll_over_24()"))
B("c04-sub-no-rezone", ["C04"], ["R14"],
  ("data", "            other = other.to_time_zone(self._time_zone)._roll_over_24()\n            this = self._roll_over_24()\n            my_year",
   "            other = other._roll_over_24()\n            this = self._roll_over_24()\n            my_year"))
B("c06-zone-slot-not-updated", ["C06"], ["R14"],
  ("data", "        new = self + (dest_time_zone - self._time_zone)\n        new._time_zone = dest_time_zone\n",
   "        new = self + (dest_time_zone - self._time_zone)\n"), canary=True)
B("c06-zone-slot-own-zone", ["C06"], ["R14"],
  ("data", "        new._time_zone = dest_time_zone\n",
   "        new._time_zone = self._time_zone\n"))
B("c06-shift-reversed", ["C06"], ["R14"],
  ("data", "        new = self + (dest_time_zone - self._time_zone)",
   "        new = self + (self._time_zone - dest_time_zone)"))
B("c06-dumper-format-before-convert", ["C06"], ["R14"],
  (lambda texts: _dumper_convert_last(texts)))
B("c06-dumper-pair-swapped", ["C06"], ["R14"],
  ("dumpers", "                new_time_zone = TimeZone(hours=custom_time_zone[0],\n"
              "                                         minutes=custom_time_zone[1])",
   "                new_time_zone = TimeZone(hours=custom_time_zone[1],\n"
   "                                         minutes=custom_time_zone[0])"))
B("c06-dumper-minus-zone-ignored", ["C06"], ["R14"],
  ("dumpers", "                time_zone_string = \"-\" + time_zone_string\n"
              "                custom_time_zone = self.get_time_zone(time_zone_string)",
   "                time_zone_string = \"-\" + time_zone_string"))
B("c20-truncated-result-not-converted-back", ["C20"], ["R14"],
  ("data", "                return new.to_time_zone(other._time_zone)", "                return new"),
  canary=True)
B("c20-truncated-search-in-wrong-zone", ["C20"], ["R14"],
  ("data", "                new = other.to_time_zone(self._time_zone)\n", "                new = other\n"))
B("c04-sub-not-negated", ["C04"], ["R32"],
  ("data", "                return -1 * (other - self)", "                return other - self"),
  canary=True)
B("c04-year-range-orientation", ["C04"], ["R32"],
  ("data", "                diff_day += get_days_in_year_range(other_year, my_year - 1)",
   "                diff_day += get_days_in_year_range(other_year, my_year)"))
B("c19-diff-sign-flipped", ["C19"], ["R32"],
  ("datetimeoper", "            return (time_point_1 - time_point_2, \"-\")\n        else:\n            return (time_point_2 - time_point_1, \"\")",
   "            return (time_point_1 - time_point_2, \"\")\n        else:\n            return (time_point_2 - time_point_1, \"-\")"),
  canary=True)
B("c19-diff-operands-flipped", ["C19"], ["R32"],
  ("datetimeoper", "            return (time_point_2 - time_point_1, \"\")",
   "            return (time_point_1 - time_point_2, \"\")"))
K("c02k-cmp-key-in-helper-order",
  ("data", "        other = other.to_time_zone(self._time_zone)._roll_over_24()\n        this = self._roll_over_24()\n        if this.get_is_calendar_date():",
   "        this = self._roll_over_24()\n        other = other.to_time_zone(self._time_zone)\n        other = other._roll_over_24()\n        if this.get_is_calendar_date():"))
K("c19k-diff-mirrored-test",
  ("datetimeoper", "        if time_point_2 < time_point_1:", "        if time_point_1 > time_point_2:"))


def _dumper_convert_last(texts):
    src = texts["dumpers"]
    a = src.find("        if custom_time_zone is not None:\n            if custom_time_zone == (0, 0):")
    b = src.find("        property_map = {}")
    c = src.find("        return expression % property_map")
    if min(a, b, c) < 0 or not a < b < c:
        raise LookupError("dumper blocks")
    conv = src[a:b]
    texts["dumpers"] = src[:a] + src[b:c] + conv + src[c:]
    return texts


# ============================================== R23 / R24 / R25 / R31 tables
B("c07-row-width-mismatch", ["C07", "C08"], ["R23"],
  ("parser_spec", "     \"%(day_of_month)02d\", \"day_of_month\"),",
   "     \"%(day_of_month)03d\", \"day_of_month\"),"), canary=True)
B("c07-row-group-renamed", ["C07"], ["R23", "R24"],
  ("parser_spec", "    (r\"MM\", r\"(?P<month_of_year>[0-9][0-9])\",",
   "    (r\"MM\", r\"(?P<month>[0-9][0-9])\","))
B("c08-row-property-mismatch", ["C08", "C07"], ["R23"],
  ("parser_spec", "     \"%(minute_of_hour)02d\", \"minute_of_hour\"),\n    (r\"(?<=^hh:)mm\"",
   "     \"%(minute_of_hour)02d\", \"minute\"),\n    (r\"(?<=^hh:)mm\""))
B("c07-utc-key-not-rewritten", ["C07"], ["R23"],
  ("parsers", "            if key == \"time_zone_utc\" and value == \"Z\":\n"
              "                time_info.pop(key)\n"
              "                time_info.update({\"time_zone_hour\": 0,\n"
              "                                  \"time_zone_minute\": 0})\n"
              "                continue\n", ""))
B("c07-year-sign-not-popped", ["C07"], ["R23"],
  ("parsers", "            if date_info.pop(\"year_sign\", \"+\") == \"-\":",
   "            if date_info.get(\"year_sign\", \"+\") == \"-\":"))
B("c20-decade-missing-from-presence-list", ["C07", "C20"], ["R23"],
  ("parsers", "            for property_ in [\"year\", \"year_of_decade\", \"century\",",
   "            for property_ in [\"year\", \"century\","))
B("c07-new-basic-form-shadows", ["C07"], ["R24"],
  ("parser_spec", "CCYYMMDD\n+XCCYYMMDD  # '+' stands for either '+' or '-'",
   "CCYYMMDD\nCCYYDDMM\n+XCCYYMMDD  # '+' stands for either '+' or '-'"),
  canary=True)
B("c07-untranslated-token", ["C07"], ["R24"],
  ("parser_spec", "hhmmss,tt\nhhmm,nn", "hhmmss,tt\nhhmm,qq"))
B("c07-only-basic-ignored", ["C07"], ["R24"],
  ("parsers", "        if self.allow_only_basic:\n            format_ok_keys = [\"basic\"]",
   "        if self.allow_only_basic:\n            format_ok_keys = [\"basic\", \"extended\"]"))
B("c07-extended-form-in-basic-table", ["C07"], ["R24"],
  ("parser_spec", "        \"reduced\": \"\"\"\n# No Time Zone\nhhmm\nhh\n",
   "        \"reduced\": \"\"\"\n# No Time Zone\nhhmm\nhh:mm\nhh\n"))
B("c08-dump-format-seconds-sep", ["C08"], ["R24"],
  ("data", "                time_string += \":ss\"\n                if seconds_int != self._second_of_minute:",
   "                time_string += \"ss\"\n                if seconds_int != self._second_of_minute:"),
  canary=True)
B("c08-dump-format-ordinal-tail", ["C08"], ["R24"],
  ("data", "            date_string = year_string + \"-DDD\"", "            date_string = year_string + \"DDD\""))
B("c07-bad-formats-dropped", ["C07"], ["R25"],
  ("parsers", "            time_expr, time_info = self.get_time_info(\n"
              "                time, bad_formats=bad_formats, bad_types=bad_types)",
   "            time_expr, time_info = self.get_time_info(\n"
   "                time, bad_types=bad_types)"), canary=True)
B("c07-basic-does-not-exclude-extended", ["C07"], ["R25"],
  ("parsers", "            if format_key == \"basic\":\n                bad_formats = [\"extended\"]",
   "            if format_key == \"basic\":\n                bad_formats = []"))
B("c09-nested-star-regex", ["C09"], ["R31"],
  ("parsers", "T(?:(?P<hours>\\d.*)H)?", "T(?:(?P<hours>(?:\\d+,?)+)H)?"), canary=True)
K("c07k-new-form-fresh-shape",
  ("parser_spec", "CCYYWwwD\n+XCCYYWwwD\"\"\",", "CCYYWwwD\n+XCCYYWwwD\"\"\",\n        \"other\": \"\"\"\"\"\","),
  note="an empty extra type key")
K("c07k-row-regex-respelled",
  ("parser_spec", "(r\"DD\", r\"(?P<day_of_month>[0-9][0-9])\",",
   "(r\"DD\", r\"(?P<day_of_month>[0-9]{2})\","))


# ================================================== R26 - R29 sign / tables ==
B("c06-sign-hours-only-property", ["C06", "C08", "C17"], ["R26"],
  ("data", "        if self._time_zone._hours < 0 or self._time_zone._minutes < 0:\n            return \"-\"",
   "        if self._time_zone._hours < 0:\n            return \"-\""), canary=True)
B("c06-sign-hours-only-zone-str", ["C06"], ["R26"],
  ("data", "            if self._hours < 0 or (self._hours == 0 and self._minutes < 0):",
   "            if self._hours < 0:"))
B("c18-sign-hours-only-format", ["C18"], ["R26"],
  ("timezone", "    sign = \"-\" if (utc_offset_hours < 0 or utc_offset_minutes < 0) else \"+\"",
   "    sign = \"-\" if utc_offset_hours < 0 else \"+\""), canary=True)
B("c07-zone-minute-not-negated", ["C07"], ["R26"],
  ("parsers", "            if \"time_zone_minute\" in time_zone_info:\n"
              "                time_zone_info[\"time_zone_minute\"] = (\n"
              "                    -int(time_zone_info[\"time_zone_minute\"]))\n", ""),
  canary=True)
B("c07-year-sign-before-expanded", ["C07"], ["R26"],
  (lambda texts: _move_block_after(
      texts, "parsers",
      "            if date_info.pop(\"year_sign\", \"+\") == \"-\":\n                year *= -1\n",
      "            year += 100 * int(date_info.pop(\"century\", 0))\n")))
B("c18-hours-floor-division", ["C18"], ["R26"],
  ("timezone", "    utc_offset_hours = sign * ((sign * utc_offset_seconds) // 3600)",
   "    utc_offset_hours = utc_offset_seconds // 3600"))
B("c18-minutes-floor-division", ["C18"], ["R26"],
  ("timezone", "    utc_offset_minutes = (utc_offset_seconds // 60) % (sign * 60)",
   "    utc_offset_minutes = (utc_offset_seconds // 60) % 60"))
B("c10-sign-not-applied-to-seconds", ["C10"], ["R26"],
  ("parsers", "                result_map[key] = value * sign_factor",
   "                result_map[key] = value if key == \"seconds\" else value * sign_factor"))
B("c17-epoch-reader-unsigned", ["C17"], ["R26"],
  ("parser_spec", "r\"(?P<seconds_since_unix_epoch>-?[0-9]+[,.]?[0-9]*)\"",
   "r\"(?P<seconds_since_unix_epoch>[0-9]+[,.]?[0-9]*)\""),
  canary=True, note="revert of fix D6")
B("c10-designators-swapped-in-str", ["C10"], ["R27"],
  ("data", "(\"hours\", \"H\"), (\"minutes\", \"M\"),", "(\"minutes\", \"H\"), (\"hours\", \"M\"),"),
  canary=True)
B("c10-seconds-parsed-int", ["C10"], ["R27"],
  ("parsers", "                if key in [\"years\", \"months\", \"days\", \"weeks\"]:",
   "                if key in [\"years\", \"months\", \"days\", \"weeks\", \"seconds\"]:"))
B("c10-T-after-hours", ["C10"], ["R27"],
  ("data", "            if prop_ == \"days\":\n                content_string += \"T\"",
   "            if prop_ == \"hours\":\n                content_string += \"T\""))
B("c10-datetime-like-month-into-days", ["C10"], ["R27"],
  ("parsers", "                result_map[\"months\"] = timepoint._month_of_year\n"
              "                result_map[\"days\"] = timepoint._day_of_month",
   "                result_map[\"months\"] = timepoint._day_of_month\n"
   "                result_map[\"days\"] = timepoint._month_of_year"))
B("c10-empty-duration-spelling", ["C10"], ["R27"],
  ("data", "        if not self:\n            return \"P0Y\"", "        if not self:\n            return \"P0\""))
B("c14-str-fmt4-order", ["C14"], ["R28"],
  ("data", "            return prefix + duration_str + \"/\" + str(self._end_point)",
   "            return prefix + str(self._end_point) + \"/\" + duration_str"), canary=True)
B("c14-parser-start-into-end", ["C14"], ["R28"],
  ("parsers", "                start_point=start_point,\n                end_point=end_point,",
   "                start_point=end_point,\n                end_point=start_point,"))
B("c17-d-maps-to-day-of-year", ["C17"], ["R29"],
  ("parser_spec", "    \"%d\": [\"day_of_month\"],", "    \"%d\": [\"day_of_year\"],"), canary=True)
B("c17-F-diverges", ["C17"], ["R29"],
  ("parser_spec", "    \"%F\": [\"century\", \"year_of_century\", \"-\", \"month_of_year\", \"-\",\n           \"day_of_month\"],",
   "    \"%F\": [\"century\", \"year_of_century\", \"-\", \"day_of_month\", \"-\",\n           \"month_of_year\"],"))
B("c17-unknown-directive-literal", ["C17"], ["R29"],
  ("parser_spec", "    if strftime_token not in STRFTIME_TRANSLATE_INFO:\n        raise StrftimeSyntaxError(strftime_token)",
   "    if strftime_token not in STRFTIME_TRANSLATE_INFO:\n        return strftime_token, []"))
B("c17-extra-directive", ["C17"], ["R29"],
  ("parser_spec", "    \"%d\": [\"day_of_month\"],", "    \"%d\": [\"day_of_month\"],\n    \"%e\": [\"day_of_month\"],"))
K("c10k-decimal-mark-equivalent",
  ("parsers", "                    if \",\" in value:\n                        value = value.replace(\",\", \".\")",
   "                    value = value.replace(\",\", \".\")"))


# ========================================= R20 - R22 / R33 errors and bounds ==
B("c09-syntax-error-loses-valueerror", ["C09", "C19"], ["R20"],
  ("exceptions", "class ISO8601SyntaxError(IsodatetimeError, ValueError):",
   "class ISO8601SyntaxError(IsodatetimeError):"), canary=True)
B("c09-keyerror-in-get-time-info", ["C09", "C19"], ["R20"],
  ("parsers", "        raise ISO8601SyntaxError(\"time\", time_string)",
   "        raise KeyError(time_string)"))
B("c09-runtimeerror-in-duration-parse", ["C09"], ["R20"],
  ("parsers", "            if timepoint.get_is_week_date():\n                raise ISO8601SyntaxError(\"duration\", expression)",
   "            if timepoint.get_is_week_date():\n                raise RuntimeError(\"week date duration\")"))
B("c17-strftime-raises-keyerror", ["C17"], ["R20", "R29"],
  ("parser_spec", "        raise StrftimeSyntaxError(strftime_token)",
   "        raise KeyError(strftime_token)"))
B("c09-broad-except-swallows", ["C09"], ["R20"],
  ("parsers", "        except Exception:\n            raise StrptimeConversionError(source, regex)",
   "        except Exception:\n            return None"))
B("c09-check-bounds-only-when-not-truncated", ["C09"], ["R21"],
  ("data", "                    if self._day_of_week is None:\n                        self._day_of_week = 1\n            self._check_bounds()",
   "                    if self._day_of_week is None:\n                        self._day_of_week = 1\n            if not self._truncated:\n                self._check_bounds()"),
  canary=True)
B("c09-field-assigned-after-check", ["C09"], ["R21"],
  ("data", "                        self._day_of_week = 1\n            self._check_bounds()",
   "                        self._day_of_week = 1\n            self._check_bounds()\n            self._hour_of_day = hour_of_day if hour_of_day is not None else self._hour_of_day"))
B("c09-second-is-duration-user", ["C09"], ["R21"],
  ("datetimeoper", "            time_point = self.time_point_parser.parse(\n                    time_point_str,\n                    dump_as_parsed=True)",
   "            time_point = self.time_point_parser.parse(\n                    time_point_str,\n                    dump_as_parsed=True, is_duration=True)"))
B("c09-empty-instance-outside-copy", ["C09", "C16"], ["R21"],
  ("data", "    reference_timepoint = TimePoint(\n        **CALENDAR.UNIX_EPOCH_DATE_TIME_REFERENCE_PROPERTIES)\n    if not utc:",
   "    reference_timepoint = TimePoint(is_empty_instance=True)\n    if not utc:"))
B("c09-minute-60-admitted", ["C09"], ["R22"],
  ("data", "            _bounds_checker(self._minute_of_hour, \"minute_of_hour\",\n                            min_val=0, upper_val=CALENDAR.MINUTES_IN_HOUR)",
   "            _bounds_checker(self._minute_of_hour, \"minute_of_hour\",\n                            min_val=0, max_val=CALENDAR.MINUTES_IN_HOUR)"),
  canary=True)
B("c09-24xx-guard-dropped", ["C09"], ["R22"],
  ("data", "        if self._hour_of_day == CALENDAR.HOURS_IN_DAY:\n"
           "            _bounds_checker(self._minute_of_hour, \"minute_of_hour\",\n"
           "                            min_val=0, max_val=0)\n"
           "            _bounds_checker(self._second_of_minute, \"second_of_minute\",\n"
           "                            min_val=0, max_val=0)\n"
           "        else:\n"
           "            _bounds_checker(self._minute_of_hour, \"minute_of_hour\",\n"
           "                            min_val=0, upper_val=CALENDAR.MINUTES_IN_HOUR)\n"
           "            _bounds_checker(self._second_of_minute, \"second_of_minute\",\n"
           "                            min_val=0, upper_val=CALENDAR.SECONDS_IN_MINUTE)",
   "        _bounds_checker(self._minute_of_hour, \"minute_of_hour\",\n"
   "                        min_val=0, upper_val=CALENDAR.MINUTES_IN_HOUR)\n"
   "        _bounds_checker(self._second_of_minute, \"second_of_minute\",\n"
   "                        min_val=0, upper_val=CALENDAR.SECONDS_IN_MINUTE)"))
B("c09-month-zero-admitted", ["C09"], ["R22"],
  ("data", "        _bounds_checker(self._month_of_year, \"month_of_year\",\n                        min_val=1, max_val=CALENDAR.MONTHS_IN_YEAR)",
   "        _bounds_checker(self._month_of_year, \"month_of_year\",\n                        min_val=0, max_val=CALENDAR.MONTHS_IN_YEAR)"))
B("c09-bounds-checker-exclusive-max", ["C09"], ["R22"],
  ("data", "             (max_val is not None and value > max_val) or",
   "             (max_val is not None and value >= max_val) or"))
B("c09-weekday-check-dropped", ["C09"], ["R22"],
  ("data", "        _bounds_checker(self._day_of_week, \"day_of_week\",\n                        min_val=1, max_val=CALENDAR.DAYS_IN_WEEK)\n", ""))
B("c09-zone-sign-conflict-admitted", ["C09", "C06"], ["R22"],
  ("data", "            if hours > 0:\n                min_minutes = 0\n            elif hours < 0:\n                max_minutes = 0\n", ""))
K("c09k-bounds-keyword-order",
  ("data", "        _bounds_checker(self._day_of_week, \"day_of_week\",\n                        min_val=1, max_val=CALENDAR.DAYS_IN_WEEK)",
   "        _bounds_checker(self._day_of_week, \"day_of_week\",\n                        max_val=CALENDAR.DAYS_IN_WEEK, min_val=1)"))
K("c09k-new-valueerror-raise",
  ("parsers", "        raise ISO8601SyntaxError(\"time\", time_string)",
   "        raise ValueError(\"Invalid ISO 8601 time representation: %s\" % time_string)"))


# ============================================================ R30 / R13d CLI ==
B("c19-process-call-outside-try", ["C19"], ["R30"],
  (lambda texts: _cli_move_out(texts)), canary=True)
B("c19-handler-narrowed", ["C19"], ["R30", "R20"],
  ("main", "    except ValueError as exc:\n        sys.exit(exc)",
   "    except KeyError as exc:\n        sys.exit(exc)"))
B("c19-option-never-consumed", ["C19"], ["R30"],
  ("main", "                args.items[0],\n                args.print_format,\n            ):",
   "                args.items[0],\n                None,\n            ):"))
B("c19-calendar-choice-unknown", ["C19", "C15"], ["R30"],
  ("main", "\"choices\": [\"360day\", \"365day\", \"366day\", \"gregorian\"],",
   "\"choices\": [\"360day\", \"364day\", \"365day\", \"366day\", \"gregorian\"],"),
  canary=True)
B("c19-backslash-strip-removed", ["C19"], ["R30"],
  ("datetimeoper", "            duration_str.replace('\\\\', ''))  # allows negative durations",
   "            duration_str)  # allows negative durations"))
B("c19-offsets2-strip-removed", ["C19"], ["R30"],
  ("main", "    if args.offsets2:\n        args.offsets2 = [item.replace(\"\\\\\", \"\") for item in args.offsets2]\n", ""))
B("c15-set-calendar-mode-conditional", ["C15", "C19"], ["R30"],
  ("datetimeoper", "        self.set_calendar_mode(calendar_mode)",
   "        if calendar_mode:\n            self.set_calendar_mode(calendar_mode)"))
B("c19-utc-option-not-forwarded", ["C19"], ["R30"],
  ("main", "        utc_mode=args.utc_mode,", "        utc_mode=False,"))
B("c19-as-total-minutes-wrong-divisor", ["C19"], ["R30"],
  ("datetimeoper", "options = {'S': time, 'M': time / 60, 'H': time / 3600}",
   "options = {'S': time, 'M': time / 3600, 'H': time / 60}"))
B("c19-offsets-swapped", ["C19"], ["R30"],
  ("main", "                args.offsets1,\n                args.offsets2,\n                args.print_format,",
   "                args.offsets2,\n                args.offsets1,\n                args.print_format,"))
B("c19-max-results-off-by-one", ["C19"], ["R30"],
  ("main", "                if len(outs) >= args.max_results:", "                if len(outs) > args.max_results:"))
B("c19-parsed-format-not-kept", ["C19"], ["R30"],
  ("datetimeoper", "                    time_point_str,\n                    dump_as_parsed=True)",
   "                    time_point_str)"))
B("c17-strftime-week-year", ["C17"], ["R13"],
  ("dumpers", "        if not timepoint.truncated and timepoint.get_is_week_date():\n"
              "            # No ISO week directives are supported: %Y is the calendar year\n"
              "            timepoint = timepoint.to_calendar_date()\n", ""),
  canary=True, note="revert of fix D5")
K("c19k-extra-consumed-option",
  ("main", "    if args.version_mode:\n        print(__version__)\n        return",
   "    if args.version_mode:\n        print(__version__)\n        return None"))


def _cli_move_out(texts):
    src = texts["main"]
    old = ("        else:\n"
           "            time_point_str = None\n"
           "            if args.items:\n"
           "                time_point_str = args.items[0]\n"
           "            out = date_time_oper.process_time_point_str(\n"
           "                time_point_str, args.offsets1, args.print_format)\n"
           "    except ValueError as exc:\n"
           "        sys.exit(exc)\n"
           "    else:\n"
           "        print(out)\n")
    new = ("        else:\n"
           "            out = None\n"
           "    except ValueError as exc:\n"
           "        sys.exit(exc)\n"
           "    else:\n"
           "        if out is None:\n"
           "            time_point_str = None\n"
           "            if args.items:\n"
           "                time_point_str = args.items[0]\n"
           "            out = date_time_oper.process_time_point_str(\n"
           "                time_point_str, args.offsets1, args.print_format)\n"
           "        print(out)\n")
    if src.count(old) != 1:
        raise LookupError("main dispatch tail")
    texts["main"] = src.replace(old, new)
    return texts


# ============================================================ R12 unit scale ==
B("c01-seconds-fallback-wrong-radix", ["C01"], ["R12"],
  ("data", "                    new._minute_of_hour += (\n                        duration._seconds / float(CALENDAR.SECONDS_IN_MINUTE))",
   "                    new._minute_of_hour += (\n                        duration._seconds / float(CALENDAR.SECONDS_IN_HOUR))"),
  canary=True)
B("c01-minutes-into-hours-raw", ["C01"], ["R12"],
  ("data", "            new._hour_of_day += duration._hours\n", "            new._hour_of_day += duration._minutes\n"))
B("c01-tick-over-hour-remainder-radix", ["C01"], ["R12"],
  ("data", "            self._minute_of_hour += (\n                hours_remainder * CALENDAR.MINUTES_IN_HOUR)",
   "            self._minute_of_hour += (\n                hours_remainder * CALENDAR.HOURS_IN_DAY)"))
B("c01-tick-over-divmod-radix", ["C01"], ["R12"],
  ("data", "            num_days, hours = divmod(self._hour_of_day, CALENDAR.HOURS_IN_DAY)",
   "            num_days, hours = divmod(self._hour_of_day, CALENDAR.MINUTES_IN_HOUR)"))
B("c01-week-form-to-days-radix", ["C01", "C11"], ["R12"],
  ("data", "            new._days = new._weeks * CALENDAR.DAYS_IN_WEEK", "            new._days = new._weeks * CALENDAR.HOURS_IN_DAY"))
B("c04-borrow-wrong-radix", ["C04"], ["R12"],
  ("data", "                diff_hour += CALENDAR.HOURS_IN_DAY", "                diff_hour += CALENDAR.MINUTES_IN_HOUR"),
  canary=True)
B("c04-borrow-wrong-component", ["C04"], ["R12"],
  ("data", "            if diff_minute < 0:\n                diff_hour -= 1", "            if diff_minute < 0:\n                diff_day -= 1"))
B("c04-result-with-months", ["C04"], ["R12"],
  ("data", "            return Duration(\n                days=diff_day, hours=diff_hour, minutes=diff_minute,\n                seconds=diff_second)",
   "            return Duration(\n                months=0, days=diff_day, hours=diff_hour, minutes=diff_minute,\n                seconds=diff_second)"))
B("c04-result-swapped-keywords", ["C04"], ["R12"],
  ("data", "days=diff_day, hours=diff_hour, minutes=diff_minute,", "days=diff_day, hours=diff_minute, minutes=diff_hour,"))
B("c11-nonnominal-wrong-factor", ["C11", "C01", "C04"], ["R12"],
  ("data", "                self._hours * CALENDAR.SECONDS_IN_HOUR +\n                self._minutes * CALENDAR.SECONDS_IN_MINUTE + self._seconds)",
   "                self._hours * CALENDAR.SECONDS_IN_MINUTE +\n                self._minutes * CALENDAR.SECONDS_IN_MINUTE + self._seconds)"),
  canary=True)
B("c11-days-and-seconds-wrong-divisor", ["C11"], ["R12"],
  ("data", "        diff_days, new_seconds = divmod(new_seconds, CALENDAR.SECONDS_IN_DAY)",
   "        diff_days, new_seconds = divmod(new_seconds, CALENDAR.SECONDS_IN_HOUR)"))
B("c11-standardize-wrong-radix", ["C11"], ["R12"],
  ("data", "                num_hours, self._minutes = divmod(\n                    self._minutes, CALENDAR.MINUTES_IN_HOUR)",
   "                num_hours, self._minutes = divmod(\n                    self._minutes, CALENDAR.HOURS_IN_DAY)"))
B("c02-second-of-day-wrong-factor", ["C02"], ["R12"],
  ("data", "        second_of_day += self._hour_of_day * CALENDAR.SECONDS_IN_HOUR",
   "        second_of_day += self._hour_of_day * CALENDAR.SECONDS_IN_MINUTE"))
B("c18-hours-divisor-60", ["C18"], ["R12"],
  ("timezone", "    utc_offset_hours = sign * ((sign * utc_offset_seconds) // 3600)",
   "    utc_offset_hours = sign * ((sign * utc_offset_seconds) // 60)"),
  canary=True)
B("c18-returned-pair-swapped", ["C18"], ["R12"],
  ("timezone", "    return utc_offset_hours, utc_offset_minutes", "    return utc_offset_minutes, utc_offset_hours"))
B("c18-template-swapped", ["C18"], ["R12"],
  ("timezone", "        sign=sign, hh=abs(utc_offset_hours), mm=abs(utc_offset_minutes)",
   "        sign=sign, hh=abs(utc_offset_minutes), mm=abs(utc_offset_hours)"))
B("c06-local-zone-pair-swapped", ["C06", "C18"], ["R12", "R14"],
  ("data", "            TimeZone(hours=local_hours, minutes=local_minutes))", "            TimeZone(hours=local_minutes, minutes=local_hours))"))
B("c18-epoch-days-times-hour", ["C18"], ["R12"],
  ("data", "        return str(int(CALENDAR.SECONDS_IN_DAY * days + seconds))",
   "        return str(int(CALENDAR.SECONDS_IN_HOUR * days + seconds))"))
B("c07-assumed-zone-swapped", ["C07"], ["R12"],
  ("parsers", "                time_zone_info[\"time_zone_hour\"] = utc_hour_offset\n                time_zone_info[\"time_zone_minute\"] = utc_minute_offset\n                return time_zone_info\n            else:",
   "                time_zone_info[\"time_zone_hour\"] = utc_minute_offset\n                time_zone_info[\"time_zone_minute\"] = utc_hour_offset\n                return time_zone_info\n            else:"))
B("c10-fallback-minute-into-hours", ["C10"], ["R12", "R27"],
  ("parsers", "            result_map[\"hours\"] = timepoint._hour_of_day", "            result_map[\"hours\"] = timepoint._minute_of_hour"))
K("c01k-swap-equal-radices",
  ("data", "                        duration._seconds / float(CALENDAR.SECONDS_IN_MINUTE))",
   "                        duration._seconds / float(CALENDAR.MINUTES_IN_HOUR))"))
K("c04k-borrow-equal-radix",
  ("data", "                diff_second += CALENDAR.SECONDS_IN_MINUTE", "                diff_second += CALENDAR.MINUTES_IN_HOUR"))


# ====================================== whole-program preserving transforms ==
def _reformat_all(texts):
    import ast as _ast
    return {k: _ast.unparse(_ast.parse(v)) + "\n" for k, v in texts.items()}


def _rename_locals_all(texts):
    import ast as _ast

    class Renamer(_ast.NodeTransformer):
        def visit_FunctionDef(self, node):
            a = node.args
            params = {x.arg for x in a.args + a.kwonlyargs + a.posonlyargs}
            if a.vararg:
                params.add(a.vararg.arg)
            if a.kwarg:
                params.add(a.kwarg.arg)
            globs, locs = set(), set()
            for n in _ast.walk(node):
                if isinstance(n, (_ast.Global, _ast.Nonlocal)):
                    globs |= set(n.names)
            for n in _ast.walk(node):
                if isinstance(n, _ast.Name) and isinstance(
                        n.ctx, _ast.Store) and n.id not in params and \
                        n.id not in globs:
                    locs.add(n.id)
                if isinstance(n, _ast.ExceptHandler) and n.name:
                    locs.add(n.name)
            for n in _ast.walk(node):
                if isinstance(n, (_ast.Import, _ast.ImportFrom)):
                    for al in n.names:
                        locs.discard(al.asname or al.name.split(".")[0])

            class R(_ast.NodeTransformer):
                def visit_Name(s, n):
                    if n.id in locs:
                        n.id = n.id + "_rn"
                    return n

                def visit_ExceptHandler(s, n):
                    if n.name in locs:
                        n.name = n.name + "_rn"
                    s.generic_visit(n)
                    return n

                def visit_FunctionDef(s, n):
                    return n
            for i, st in enumerate(node.body):
                node.body[i] = R().visit(st)
            return node
    out = {}
    for k, v in texts.items():
        t = Renamer().visit(_ast.parse(v))
        _ast.fix_missing_locations(t)
        out[k] = _ast.unparse(t) + "\n"
    return out


K("zzk-reformat-every-module", _reformat_all,
  note="ast.unparse round trip: all comments, line numbers and wrapping change")
K("zzk-rename-every-local", _rename_locals_all,
  note="every local variable of every function renamed (tests still pass)")


# ===================================================== independently seeded ==
# Changes written by fresh sub-agents that saw only the property text (kept
# under /verif/seeded/<id>/ with their demonstration).  Each is replayed here
# in memory; it must be reported for every property recorded as catching it.
def _apply_unified_diff(texts, diff_text):
    import re as _re
    files = _re.split(r"^diff --git .*$", diff_text, flags=_re.M)[1:]
    for chunk in files:
        m = _re.search(r"^\+\+\+ b/(.*)$", chunk, _re.M)
        if not m:
            continue
        path = m.group(1).strip()
        mod = path.split("/")[-1][:-3]
        if mod not in texts:
            raise LookupError(path)
        src = texts[mod].split("\n")
        out = []
        pos = 0
        for h in _re.finditer(
                r"^@@ -(\d+)(?:,(\d+))? \+(\d+)(?:,(\d+))? @@.*\n((?:[ +\-\\].*\n?)*)",
                chunk, _re.M):
            start = int(h.group(1)) - 1
            body = h.group(5).split("\n")
            if body and body[-1] == "":
                body.pop()
            old = [l[1:] for l in body if l[:1] in (" ", "-")]
            new = [l[1:] for l in body if l[:1] in (" ", "+")]
            # locate the old block (exact position first, then search)
            idx = None
            if src[start:start + len(old)] == old:
                idx = start
            else:
                for k in range(len(src) - len(old) + 1):
                    if src[k:k + len(old)] == old:
                        idx = k
                        break
            if idx is None or idx < pos:
                raise LookupError("hunk of %s does not apply" % path)
            out.extend(src[pos:idx])
            out.extend(new)
            pos = idx + len(old)
        out.extend(src[pos:])
        texts[mod] = "\n".join(out)
    return texts


def _load_seeded():
    import json as _json
    import os as _os
    root = _os.path.join(_os.path.dirname(_os.path.dirname(_os.path.dirname(
        _os.path.abspath(__file__)))), "seeded")
    if not _os.path.isdir(root):
        return
    for sid in sorted(_os.listdir(root)):
        d = _os.path.join(root, sid)
        try:
            meta = _json.load(open(_os.path.join(d, "meta.json")))
            diff = open(_os.path.join(d, "patch.diff")).read()
        except OSError:
            continue
        # expected_props is frozen when the change is first confirmed as
        # caught; flagged_by_checks is refreshed by tools_refresh_seeded.py
        props = sorted(meta.get("expected_props") or
                       meta.get("flagged_by_checks", {}))
        if not props:
            continue
        B("seeded-" + sid, props, [],
          (lambda texts, _d=diff: _apply_unified_diff(texts, _d)),
          note=meta.get("summary", ""))


_load_seeded()


# ========================================== R47 / R48 / R32 (later additions)
B("c01-ordinal-carry-guard-ge", ["C01", "C06", "C20"], ["R47"],
  ("data", "            while self._day_of_year > get_days_in_year(self._year):",
   "            while self._day_of_year >= get_days_in_year(self._year):"))
B("c05-month-wrap-guard-ge", ["C05"], ["R47"],
  ("data", "                if new._month_of_year > CALENDAR.MONTHS_IN_YEAR:\n                    new._month_of_year -= CALENDAR.MONTHS_IN_YEAR",
   "                if new._month_of_year >= CALENDAR.MONTHS_IN_YEAR:\n                    new._month_of_year -= CALENDAR.MONTHS_IN_YEAR"))
B("c01-weekday-modulo-no-shift", ["C01", "C06", "C20"], ["R47"],
  ("data", "            num_weeks, days = divmod(\n                self._day_of_week - 1, CALENDAR.DAYS_IN_WEEK)\n            self._week_of_year += num_weeks\n            self._day_of_week = days + 1",
   "            num_weeks, days = divmod(\n                self._day_of_week, CALENDAR.DAYS_IN_WEEK)\n            self._week_of_year += num_weeks\n            self._day_of_week = days"))
B("c07-century-factor", ["C07"], ["R48"],
  ("parsers", "            year += 100 * int(date_info.pop(\"century\", 0))",
   "            year += 1000 * int(date_info.pop(\"century\", 0))"))
B("c08-century-property-radix", ["C08", "C17"], ["R48"],
  ("data", "    def century(self): return (abs(self._year) % 10000) // 100",
   "    def century(self): return abs(self._year) // 100"))
B("c04-diff-orientation", ["C04"], ["R32"],
  ("data", "            diff_minute = my_minute - other_minute", "            diff_minute = other_minute - my_minute"))
K("c08k-century-respelled",
  ("data", "    def century(self): return (abs(self._year) % 10000) // 100",
   "    def century(self): return abs(self._year) % 10000 // 100"))


# ============================== independently written preserving refactorings
# Behaviour-preserving refactorings written by fresh sub-agents (each checked
# by the pinned tests and by an equivalence digest over hundreds of thousands
# of calls); kept under /verif/refactors/.  Every check must stay silent.
def _load_refactors():
    import os as _os
    root = _os.path.join(_os.path.dirname(_os.path.dirname(_os.path.dirname(
        _os.path.abspath(__file__)))), "refactors")
    if not _os.path.isdir(root):
        return
    for fn in sorted(_os.listdir(root)):
        if not fn.endswith(".diff"):
            continue
        diff = open(_os.path.join(root, fn)).read()
        note = ""
        try:
            note = open(_os.path.join(root, fn[:-5] + ".txt")).read()[:300]
        except OSError:
            pass
        K("refactor-" + fn[:-5],
          (lambda texts, _d=diff: _apply_unified_diff(texts, _d)), note=note)


_load_refactors()


# ================================================================== R49
B("c03-week-year-never-previous", ["C03"], ["R49"],
  ("data", "        start_year, start_month, start_day = prev_start\n        week_date_start_year = year - 1",
   "        start_year, start_month, start_day = prev_start\n        week_date_start_year = year"))


# ============================== whole-program behaviour-preserving transforms
def _each_module(texts, transform):
    import ast as _ast
    out = {}
    for name, text in texts.items():
        tree = _ast.parse(text)
        tree = transform(name, tree) or tree
        _ast.fix_missing_locations(tree)
        out[name] = _ast.unparse(tree) + "\n"
    return out


def _sort_definitions(texts):
    """Methods of every class and functions of every module in alphabetical
    order (same-named definitions - property getter/setter pairs - keep
    their relative order; everything that is not a def stays in front)."""
    import ast as _ast

    def reorder(body):
        defs = [b for b in body if isinstance(b, _ast.FunctionDef)]
        if len(defs) < 2:
            return body
        first = min(i for i, b in enumerate(body)
                    if isinstance(b, _ast.FunctionDef))
        # keep statements that follow the first def in place relative to
        # the defs only if they are defs/classes; otherwise do not touch
        tail = body[first:]
        if any(not isinstance(b, (_ast.FunctionDef,)) for b in tail):
            return body
        return body[:first] + sorted(tail, key=lambda d: d.name)

    def tr(name, tree):
        for n in _ast.walk(tree):
            if isinstance(n, _ast.ClassDef):
                n.body = reorder(n.body)
        return tree
    return _each_module(texts, tr)


def _add_debug_logging(texts):
    """A module logger and a LOG.debug(...) call at the start of every
    function and method of the package."""
    import ast as _ast

    def tr(name, tree):
        for n in _ast.walk(tree):
            if isinstance(n, _ast.FunctionDef):
                if any(isinstance(x, (_ast.Yield, _ast.YieldFrom))
                       for x in _ast.walk(n)) and False:
                    continue
                call = _ast.parse("LOG.debug('enter %s', %r)" % (
                    "%s", n.name)).body[0]
                pos = 1 if (n.body and isinstance(n.body[0], _ast.Expr) and
                            isinstance(n.body[0].value, _ast.Constant) and
                            isinstance(n.body[0].value.value, str)) else 0
                n.body.insert(pos, call)
        pre = _ast.parse("import logging\nLOG = logging.getLogger(__name__)\n"
                         ).body
        # after the module docstring and __future__ imports
        pos = 0
        while pos < len(tree.body) and (
                (isinstance(tree.body[pos], _ast.Expr) and isinstance(
                    tree.body[pos].value, _ast.Constant)) or
                (isinstance(tree.body[pos], _ast.ImportFrom) and
                 tree.body[pos].module == "__future__")):
            pos += 1
        tree.body[pos:pos] = pre
        return tree
    return _each_module(texts, tr)


def _annotate_and_pad(texts):
    """Return annotations on private functions, an unused keyword-only
    parameter on module-level private functions that are only called
    positionally... (kept simple: annotations and docstrings only)."""
    import ast as _ast

    def tr(name, tree):
        for n in _ast.walk(tree):
            if isinstance(n, _ast.FunctionDef):
                if not (n.body and isinstance(n.body[0], _ast.Expr) and
                        isinstance(n.body[0].value, _ast.Constant)):
                    n.body.insert(0, _ast.Expr(value=_ast.Constant(
                        value="Documented %s." % n.name)))
                for a in n.args.args:
                    if a.annotation is None and a.arg not in ("self", "cls"):
                        a.annotation = _ast.Constant(value="object")
        return tree
    return _each_module(texts, tr)


def _lists_to_tuples_in_loops(texts):
    """`for x in [a, b]` -> `for x in (a, b)`; `x in [..]` -> `x in (..)`."""
    import ast as _ast

    class T(_ast.NodeTransformer):
        def visit_For(self, node):
            self.generic_visit(node)
            if isinstance(node.iter, _ast.List):
                node.iter = _ast.Tuple(elts=node.iter.elts, ctx=_ast.Load())
            return node

        def visit_Compare(self, node):
            self.generic_visit(node)
            if len(node.ops) == 1 and isinstance(
                    node.ops[0], (_ast.In, _ast.NotIn)) and isinstance(
                        node.comparators[0], _ast.List):
                node.comparators[0] = _ast.Tuple(
                    elts=node.comparators[0].elts, ctx=_ast.Load())
            return node

    def tr(name, tree):
        return T().visit(tree)
    return _each_module(texts, tr)


def _explicit_else_and_temps(texts):
    """Every `if c: <...return/raise>` followed by more statements gets an
    explicit else; every `return <call>` goes through a temporary."""
    import ast as _ast

    def leaves(body):
        return bool(body) and isinstance(body[-1], (_ast.Return, _ast.Raise))

    def fix(body, counter):
        out = []
        i = 0
        while i < len(body):
            st = body[i]
            for fld in ("body", "orelse", "finalbody"):
                sub = getattr(st, fld, None)
                if isinstance(sub, list) and sub and isinstance(
                        sub[0], _ast.stmt) and not isinstance(
                            st, (_ast.FunctionDef, _ast.ClassDef)):
                    setattr(st, fld, fix(sub, counter))
            if isinstance(st, _ast.Try):
                for h in st.handlers:
                    h.body = fix(h.body, counter)
            if isinstance(st, _ast.If) and not st.orelse and leaves(st.body) \
                    and i + 1 < len(body):
                st.orelse = fix(body[i + 1:], counter)
                out.append(st)
                return out
            if isinstance(st, _ast.Return) and isinstance(
                    st.value, _ast.Call):
                counter[0] += 1
                nm = "result_%d" % counter[0]
                out.append(_ast.Assign(
                    targets=[_ast.Name(id=nm, ctx=_ast.Store())],
                    value=st.value))
                out.append(_ast.Return(value=_ast.Name(id=nm,
                                                       ctx=_ast.Load())))
                i += 1
                continue
            out.append(st)
            i += 1
        return out

    def tr(name, tree):
        for n in _ast.walk(tree):
            if isinstance(n, _ast.FunctionDef):
                if any(isinstance(x, (_ast.Yield, _ast.YieldFrom))
                       for x in _ast.walk(n)):
                    continue
                n.body = fix(n.body, [0])
        return tree
    return _each_module(texts, tr)


K("zzk-sort-definitions", _sort_definitions,
  note="methods in alphabetical order in every class")
K("zzk-debug-logging-everywhere", _add_debug_logging,
  note="module logger + LOG.debug at the start of every function")
K("zzk-annotations-docstrings", _annotate_and_pad,
  note="parameter annotations and docstrings everywhere")
K("zzk-lists-to-tuples", _lists_to_tuples_in_loops,
  note="list literals in iteration / membership position become tuples")
K("zzk-explicit-else-and-return-temps", _explicit_else_and_temps,
  note="explicit else after leaving ifs; returned calls via temporaries")


def _mirror_constant_comparisons(texts):
    """`x == 1` -> `1 == x`, `x < 0` -> `0 > x` wherever the right operand
    is a constant and the left is not."""
    import ast as _ast
    flip = {_ast.Eq: _ast.Eq, _ast.NotEq: _ast.NotEq, _ast.Lt: _ast.Gt,
            _ast.Gt: _ast.Lt, _ast.LtE: _ast.GtE, _ast.GtE: _ast.LtE}

    class T(_ast.NodeTransformer):
        def visit_Compare(self, node):
            self.generic_visit(node)
            if len(node.ops) == 1 and type(node.ops[0]) in flip and \
                    isinstance(node.comparators[0], _ast.Constant) and \
                    node.comparators[0].value is not None and \
                    not isinstance(node.left, _ast.Constant):
                return _ast.Compare(left=node.comparators[0],
                                    ops=[flip[type(node.ops[0])]()],
                                    comparators=[node.left])
            return node

    def tr(name, tree):
        return T().visit(tree)
    return _each_module(texts, tr)


def _condition_temps(texts):
    """Every `if <test>:` of a function body becomes
    `cond_N = <test>; if cond_N:` (elif links excepted), and a `pass` is
    put in front of every return."""
    import ast as _ast

    def fix(body, counter, chain=False):
        out = []
        for st in body:
            for fld in ("body", "orelse", "finalbody"):
                sub = getattr(st, fld, None)
                if isinstance(sub, list) and sub and isinstance(
                        sub[0], _ast.stmt) and not isinstance(
                            st, (_ast.FunctionDef, _ast.ClassDef)):
                    is_elif = (fld == "orelse" and isinstance(st, _ast.If)
                               and len(sub) == 1 and isinstance(
                                   sub[0], _ast.If))
                    setattr(st, fld, fix(sub, counter, is_elif))
            if isinstance(st, _ast.Try):
                for h in st.handlers:
                    h.body = fix(h.body, counter)
            if isinstance(st, _ast.If) and not chain:
                counter[0] += 1
                nm = "cond_%d" % counter[0]
                out.append(_ast.Assign(
                    targets=[_ast.Name(id=nm, ctx=_ast.Store())],
                    value=st.test))
                st.test = _ast.Name(id=nm, ctx=_ast.Load())
            if isinstance(st, _ast.Return):
                out.append(_ast.Pass())
            out.append(st)
        return out

    def tr(name, tree):
        for n in _ast.walk(tree):
            if isinstance(n, _ast.FunctionDef):
                n.body = fix(n.body, [0])
        return tree
    return _each_module(texts, tr)


K("zzk-mirror-constant-comparisons", _mirror_constant_comparisons,
  note="constants on the left of comparisons")
K("zzk-condition-temporaries", _condition_temps,
  note="if tests through temporaries, pass before returns")


def _expand_augassign(texts):
    """`x += e` -> `x = x + e` for name and attribute targets."""
    import ast as _ast
    import copy as _copy

    class T(_ast.NodeTransformer):
        def visit_AugAssign(self, node):
            self.generic_visit(node)
            if isinstance(node.target, (_ast.Name, _ast.Attribute)):
                load = _copy.deepcopy(node.target)
                for n in _ast.walk(load):
                    if hasattr(n, "ctx"):
                        n.ctx = _ast.Load()
                return _ast.Assign(targets=[node.target], value=_ast.BinOp(
                    left=load, op=node.op, right=node.value))
            return node

    def tr(name, tree):
        return T().visit(tree)
    return _each_module(texts, tr)


def _if_assign_to_ifexp(texts):
    """`if c: x = a else: x = b` -> `x = a if c else b`;
    `if c: return a` + `return b` -> `return a if c else b`."""
    import ast as _ast

    def same_target(a, b):
        return isinstance(a, _ast.Assign) and isinstance(b, _ast.Assign) \
            and len(a.targets) == 1 and len(b.targets) == 1 and \
            _ast.dump(a.targets[0]) == _ast.dump(b.targets[0])

    def fix(body):
        out = []
        i = 0
        while i < len(body):
            st = body[i]
            for fld in ("body", "orelse", "finalbody"):
                sub = getattr(st, fld, None)
                if isinstance(sub, list) and sub and isinstance(
                        sub[0], _ast.stmt) and not isinstance(
                            st, (_ast.FunctionDef, _ast.ClassDef)):
                    setattr(st, fld, fix(sub))
            if isinstance(st, _ast.Try):
                for h in st.handlers:
                    h.body = fix(h.body)
            if isinstance(st, _ast.If) and len(st.body) == 1 and \
                    len(st.orelse) == 1 and same_target(st.body[0],
                                                        st.orelse[0]):
                out.append(_ast.Assign(
                    targets=st.body[0].targets,
                    value=_ast.IfExp(test=st.test, body=st.body[0].value,
                                     orelse=st.orelse[0].value)))
                i += 1
                continue
            nxt = body[i + 1] if i + 1 < len(body) else None
            if isinstance(st, _ast.If) and not st.orelse and \
                    len(st.body) == 1 and isinstance(
                        st.body[0], _ast.Return) and \
                    st.body[0].value is not None and isinstance(
                        nxt, _ast.Return) and nxt.value is not None:
                out.append(_ast.Return(value=_ast.IfExp(
                    test=st.test, body=st.body[0].value, orelse=nxt.value)))
                i += 2
                continue
            out.append(st)
            i += 1
        return out

    def tr(name, tree):
        for n in _ast.walk(tree):
            if isinstance(n, _ast.FunctionDef):
                n.body = fix(n.body)
        return tree
    return _each_module(texts, tr)


def _de_morgan_and_split(texts):
    """`not (a or b)` -> `not a and not b`, `a and b` in an if test with no
    else -> nested ifs, `a <= x <= b` -> `a <= x and x <= b`."""
    import ast as _ast
    import copy as _copy

    class T(_ast.NodeTransformer):
        def visit_UnaryOp(self, node):
            self.generic_visit(node)
            if isinstance(node.op, _ast.Not) and isinstance(
                    node.operand, _ast.BoolOp):
                op = _ast.And() if isinstance(node.operand.op, _ast.Or) \
                    else _ast.Or()
                return _ast.BoolOp(op=op, values=[
                    _ast.UnaryOp(op=_ast.Not(), operand=v)
                    for v in node.operand.values])
            return node

        def visit_Compare(self, node):
            self.generic_visit(node)
            if len(node.ops) == 2 and isinstance(
                    node.comparators[0], (_ast.Name, _ast.Attribute,
                                          _ast.Constant)):
                mid = node.comparators[0]
                return _ast.BoolOp(op=_ast.And(), values=[
                    _ast.Compare(left=node.left, ops=[node.ops[0]],
                                 comparators=[mid]),
                    _ast.Compare(left=_copy.deepcopy(mid), ops=[node.ops[1]],
                                 comparators=[node.comparators[1]])])
            return node

        def visit_If(self, node):
            self.generic_visit(node)
            if not node.orelse and isinstance(node.test, _ast.BoolOp) and \
                    isinstance(node.test.op, _ast.And) and len(
                        node.test.values) == 2:
                a, b = node.test.values
                return _ast.If(test=a, body=[_ast.If(
                    test=b, body=node.body, orelse=[])], orelse=[])
            return node

    def tr(name, tree):
        return T().visit(tree)
    return _each_module(texts, tr)


K("zzk-expand-augmented-assignments", _expand_augassign,
  note="x += e written as x = x + e everywhere")
K("zzk-if-else-to-conditional-expressions", _if_assign_to_ifexp,
  note="two-armed assignments and guard returns as conditional expressions")
K("zzk-de-morgan-nested-ifs", _de_morgan_and_split,
  note="De Morgan, `if a and b` as nested ifs, chained comparisons split")


def _positional_to_keyword(texts):
    """Calls of module-level functions of the package (unique names, plain
    positional parameters) pass their arguments by keyword; calls of
    `_bounds_checker` pass min_val positionally."""
    import ast as _ast
    sigs = {}
    counts = {}
    for name, text in texts.items():
        tree = _ast.parse(text)
        for n in _ast.walk(tree):
            if isinstance(n, _ast.FunctionDef):
                counts[n.name] = counts.get(n.name, 0) + 1
        for st in tree.body:
            if isinstance(st, _ast.FunctionDef):
                a = st.args
                if a.vararg or a.kwarg or a.posonlyargs:
                    continue
                sigs[st.name] = [x.arg for x in a.args]
    sigs = {k: v for k, v in sigs.items() if counts.get(k) == 1 and
            not k.startswith("__")}

    class T(_ast.NodeTransformer):
        def visit_Call(self, node):
            self.generic_visit(node)
            fn = node.func
            nm = fn.id if isinstance(fn, _ast.Name) else None
            if nm == "_bounds_checker":
                kws = {k.arg: k for k in node.keywords}
                if len(node.args) == 2 and "min_val" in kws:
                    node.args.append(kws["min_val"].value)
                    node.keywords = [k for k in node.keywords
                                     if k.arg != "min_val"]
                return node
            if nm in sigs and node.args and not any(
                    isinstance(a, _ast.Starred) for a in node.args) and \
                    len(node.args) <= len(sigs[nm]) and not any(
                        k.arg is None for k in node.keywords):
                params = sigs[nm]
                new_kw = [_ast.keyword(arg=p, value=a)
                          for p, a in zip(params, node.args)]
                node.keywords = new_kw + node.keywords
                node.args = []
            return node

    def tr(name, tree):
        return T().visit(tree)
    return _each_module(texts, tr)


K("zzk-positional-to-keyword-arguments", _positional_to_keyword,
  note="package functions called by keyword; _bounds_checker min positional")


# ===================================================== round-5 rules =======
B("r56-hours-block-gone", ["C01"], ["R56"],
  ("data", "        if duration._hours:\n"
           "            new._hour_of_day += duration._hours\n"
           "            new._tick_over()\n", ""), canary=True)
B("r56-days-only-for-calendar", ["C01"], ["R56"],
  ("data", "            else:\n"
           "                new._day_of_week += duration._days\n",
   "            elif new.get_is_week_date() and new._day_of_week is None:\n"
   "                new._day_of_week = duration._days\n"))
B("r57-inclusive-upper-bound", ["C03"], ["R57"],
  ("data", "    elif this_start <= cal_date < next_start:",
   "    elif this_start <= cal_date <= next_start:"), canary=True)
B("r57-exclusive-lower-bound", ["C03"], ["R57"],
  ("data", "    if prev_start <= cal_date < this_start:",
   "    if prev_start < cal_date < this_start:"))
B("r58-refuse-decimal-comma", ["C07"], ["R58"],
  ("parsers", "        if bad_types is None:\n            bad_types = []\n"
              "        for format_key, type_regex_map in "
              "self._time_regex_map.items():",
   "        if bad_types is None:\n            bad_types = []\n"
   "        if \",\" in time_string[2:]:\n"
   "            raise ISO8601SyntaxError(\"time\", time_string)\n"
   "        for format_key, type_regex_map in "
   "self._time_regex_map.items():"), canary=True)
K("r58-refuse-colon-when-basic",
  ("parsers", "        if bad_types is None:\n            bad_types = []\n"
              "        for format_key, type_regex_map in "
              "self._time_regex_map.items():",
   "        if bad_types is None:\n            bad_types = []\n"
   "        if self.allow_only_basic and \":\" in time_string:\n"
   "            raise ISO8601SyntaxError(\"time\", time_string)\n"
   "        for format_key, type_regex_map in "
   "self._time_regex_map.items():"))
B("r59-literal-format-keys", ["C09"], ["R59"],
  ("parsers", "        for format_key, regex_list in "
              "self._time_zone_regex_map.items():\n"
              "            if format_key in bad_formats:\n"
              "                continue\n",
   "        for format_key in (\"basic\", \"extended\"):\n"
   "            if format_key in bad_formats:\n"
   "                continue\n"
   "            regex_list = self._time_zone_regex_map[format_key]\n"),
  canary=True)
K("r59-keys-of-the-map-itself",
  ("parsers", "        for format_key, regex_list in "
              "self._time_zone_regex_map.items():\n"
              "            if format_key in bad_formats:\n"
              "                continue\n",
   "        for format_key in list(self._time_zone_regex_map):\n"
   "            if format_key in bad_formats:\n"
   "                continue\n"
   "            regex_list = self._time_zone_regex_map[format_key]\n"))
B("r60-whole-plus-fraction", ["C10"], ["R60"],
  ("parsers", "                    value = float(value)\n",
   "                    whole, _, frac = value.partition(\".\")\n"
   "                    value = float(whole) + float(\"0.\" + (frac or \"0\"))\n"),
  canary=True)
B("r61-min-point-not-checked", ["C13"], ["R61"],
  ("data", "        if self._min_point is not None and timepoint < "
           "self._min_point:\n            return False\n", ""), canary=True)
K("r61-effective-bounds-max-min",
  ("data", "        if self._start_point is not None and timepoint < "
           "self._start_point:\n            return False\n"
           "        if self._min_point is not None and timepoint < "
           "self._min_point:\n            return False\n",
   "        lower = self._start_point\n"
   "        if self._min_point is not None and (\n"
   "                lower is None or self._min_point > lower):\n"
   "            lower = self._min_point\n"
   "        if lower is not None and timepoint < lower:\n"
   "            return False\n"))
B("r62-count-not-scaled", ["C15"], ["R62"],
  ("data", "            days += num_corrections * diff_days_leap",
   "            days += num_corrections"), canary=True)
B("r29-splitter-from-table", ["C17"], ["R29"],
  ("parser_spec", "REC_SPLIT_STRFTIME_DIRECTIVE = re.compile(r\"(%\\w)\")",
   "REC_SPLIT_STRFTIME_DIRECTIVE = re.compile(r\"(%[dFHjmMsSTXYyz])\")"))
K("r29-splitter-letters-only",
  ("parser_spec", "REC_SPLIT_STRFTIME_DIRECTIVE = re.compile(r\"(%\\w)\")",
   "REC_SPLIT_STRFTIME_DIRECTIVE = re.compile(r\"(%[A-Za-z0-9_])\")"))
B("r16-empty-shortcut-in-eq", ["C11"], ["R16"],
  ("data", "        if isinstance(other, Duration):\n"
           "            if self.is_exact():\n"
           "                if other.is_exact():\n",
   "        if isinstance(other, Duration):\n"
   "            if not other:\n"
   "                return not self\n"
   "            if self.is_exact():\n"
   "                if other.is_exact():\n"))
B("r36-truncated-props-by-truth", ["C07"], ["R36"],
  ("data", "            if value is not None:\n"
           "                props.update({attr: value})",
   "            if value:\n"
   "                props.update({attr: value})"))
B("r11-leap-flag-overridden", ["C12"], ["R11"],
  ("data", "    is_leap_year = get_is_leap_year(year)\n    return _iter_months_days(",
   "    is_leap_year = get_is_leap_year(year)\n"
   "    if month_of_year is not None and month_of_year > 2:\n"
   "        is_leap_year = False\n"
   "    return _iter_months_days("))


# ===================================================== round-6 rules =======
_ORD_LOOP = ("    iter_num_days = 0\n"
             "    for iter_month, iter_day in iter_months_days(year):\n"
             "        iter_num_days += 1\n"
             "        if iter_num_days == day_of_year:\n"
             "            return year, iter_month, iter_day\n"
             "    raise ValueError(\"Bad ordinal date: %s-%03d\" % (year, day_of_year))")
_ORD_CLOSED = ("    if get_is_leap_year(year):\n"
               "        days_in_months = CALENDAR.DAYS_IN_MONTHS_LEAP\n"
               "    else:\n"
               "        days_in_months = CALENDAR.DAYS_IN_MONTHS\n"
               "    days_left = day_of_year\n"
               "    for iter_month, days_in_month in enumerate(days_in_months, start=1):\n"
               "        if days_left %s days_in_month:\n"
               "            return year, iter_month, days_left\n"
               "        days_left -= days_in_month\n"
               "    raise ValueError(\"Bad ordinal date: %%s-%%03d\" %% (year, day_of_year))")
B("r65-month-peeling-nonstrict", ["C03"], ["R65"],
  ("data", _ORD_LOOP, _ORD_CLOSED % "<"), canary=True)
K("r65-month-peeling-strict",
  ("data", _ORD_LOOP, _ORD_CLOSED % "<="))
B("r67-signed-offset-to-parser", ["C19"], ["R67"],
  ("datetimeoper", "            if offset.startswith(\"-\") or offset.startswith(\"+\"):\n"
                   "                sign = offset[0]\n"
                   "                offset = offset[1:]\n",
   "            if offset.startswith(\"+\"):\n"
   "                offset = offset[1:]\n"), canary=True)
B("r68-single-member-answers-none", ["C13"], ["R68"],
  ("data", "        if self._get_is_in_bounds(timepoint):\n"
           "            if self._duration is not None and self._duration.is_exact():",
   "        if self._repetitions == 1:\n"
   "            return None\n"
   "        if self._get_is_in_bounds(timepoint):\n"
   "            if self._duration is not None and self._duration.is_exact():"),
  canary=True)
B("r17-sub-week-form-added", ["C11"], ["R17"],
  ("data", "    def __sub__(self, other):\n        return self + -1 * other",
   "    def __sub__(self, other):\n"
   "        if isinstance(other, Duration) and self.get_is_in_weeks() and \\\n"
   "                other.get_is_in_weeks():\n"
   "            new = self._copy()\n"
   "            new._weeks += other._weeks\n"
   "            return new\n"
   "        return self + -1 * other"))
B("r26-refusal-after-match", ["C10"], ["R26"],
  ("parsers", "                result_map[key] = value * sign_factor\n"
              "            return data.Duration(**result_map)",
   "                result_map[key] = value * sign_factor\n"
   "            if \"weeks\" in result_map and len(result_map) > 1:\n"
   "                raise ISO8601SyntaxError(\"duration\", expression)\n"
   "            return data.Duration(**result_map)"))
B("r24-fraction-capped", ["C07"], ["R24"],
  ("parser_spec", "r\",(?P<second_of_minute_decimal>[0-9]+)\"",
   "r\",(?P<second_of_minute_decimal>[0-9]{1,6})\""))
B("r12-borrow-wrong-direction", ["C04"], ["R12"],
  ("data", "            if diff_second < 0:\n                diff_minute -= 1",
   "            if diff_second < 0:\n                diff_minute += 1"))


# ===================================================== round-8 rules =======
B("r77-fraction-guard-on-seconds", ["C01"], ["R77"],
  ("data", "        if (self._hour_of_day is not None and\n"
           "                self._minute_of_hour is not None):\n"
           "            hours_remainder",
   "        if (self._hour_of_day is not None and\n"
   "                self._second_of_minute is not None):\n"
   "            hours_remainder"), canary=True)
B("r77-day-of-year-by-truth", ["C04"], ["R77"],
  ("data", "        if self._day_of_year is not None:\n"
           "            while self._day_of_year < 1:",
   "        if self._day_of_year:\n"
   "            while self._day_of_year < 1:"))
K("r77-guards-as-early-nesting",
  ("data", "        if self._minute_of_hour is not None:\n"
           "            num_hours, minutes = divmod(self._minute_of_hour,\n"
           "                                        CALENDAR.MINUTES_IN_HOUR)\n"
           "            self._hour_of_day += num_hours\n"
           "            self._minute_of_hour = minutes\n",
   "        if not (self._minute_of_hour is None):\n"
   "            num_hours, minutes = divmod(self._minute_of_hour,\n"
   "                                        CALENDAR.MINUTES_IN_HOUR)\n"
   "            self._minute_of_hour = minutes\n"
   "            self._hour_of_day += num_hours\n"))
B("r78-unknown-zone-shifted", ["C20"], ["R78"],
  ("data", "        if dest_time_zone._unknown:\n            return self\n",
   ""), canary=True)
K("r78-unknown-zone-via-property",
  ("data", "        if dest_time_zone._unknown:\n            return self\n",
   "        if dest_time_zone.unknown:\n            return self\n"))
B("r79-reverse-range-stops-at-two", ["C01"], ["R79"],
  ("data", "                else:\n"
           "                    day_range = range(days, 0, -1)",
   "                else:\n"
   "                    day_range = range(days, 1, -1)"), canary=True)
B("r79-forward-range-one-short", ["C01"], ["R79"],
  ("data", "                else:\n"
           "                    day_range = range(1, days + 1)",
   "                else:\n"
   "                    day_range = range(1, days)"))
K("r79-range-bounds-respelled",
  ("data", "                else:\n"
           "                    day_range = range(1, days + 1)",
   "                else:\n"
   "                    day_range = range(1, 1 + days)"))
B("r49-first-walk-ignores-year", ["C03"], ["R49"],
  ("data", "        if (start_year == year and\n"
           "                iter_month == month_of_year and",
   "        if (iter_month == month_of_year and"), canary=True)
K("r49-walk-match-as-tuple",
  ("data", "            if (iter_start_year == year and\n"
           "                    iter_month == month_of_year and\n"
           "                    iter_day == day_of_month):",
   "            if (iter_start_year, iter_month, iter_day) == cal_date:"))
B("r12-refill-an-hour-of-seconds", ["C18"], ["R12"],
  ("data", "                diff_second += CALENDAR.SECONDS_IN_MINUTE",
   "                diff_second += CALENDAR.SECONDS_IN_HOUR"), canary=True)
K("r12-refill-spelled-as-ratio",
  ("data", "                diff_second += CALENDAR.SECONDS_IN_MINUTE",
   "                diff_second += (CALENDAR.SECONDS_IN_HOUR //\n"
   "                                CALENDAR.MINUTES_IN_HOUR)"))
B("r44-count-truncated", ["C18"], ["R44"],
  ("data", "Duration(seconds=float(num_seconds))",
   "Duration(seconds=int(num_seconds))"), canary=True)
K("r44-count-through-a-local",
  ("data", "    return reference_timepoint + Duration(seconds=float(num_seconds))",
   "    count = float(num_seconds)\n"
   "    return reference_timepoint + Duration(seconds=count)"))
B("r19-early-exit-or", ["C13"], ["R19"],
  ("data", "            if self._end_point is None and iter_timepoint > timepoint:",
   "            if self._end_point is None or iter_timepoint > timepoint:"),
  canary=True)
K("r19-early-exits-merged",
  ("data", "            if self._start_point is None and iter_timepoint < timepoint:\n"
           "                return False\n"
           "            if self._end_point is None and iter_timepoint > timepoint:\n"
           "                return False\n",
   "            if (self._start_point is None and iter_timepoint < timepoint\n"
   "                    or self._end_point is None and\n"
   "                    iter_timepoint > timepoint):\n"
   "                return False\n"))
B("r27-flag-raised-by-zero", ["C10"], ["R27"],
  ("data", "                if attr_value < 0:\n"
           "                    is_fully_negative = True",
   "                if not attr_value < 0:\n"
   "                    is_fully_negative = True"), canary=True)
B("r27-flag-not-final", ["C10"], ["R27"],
  ("data", "                if attr_value > 0:\n"
           "                    is_fully_negative = False\n"
           "                    break\n",
   "                if attr_value > 0:\n"
   "                    is_fully_negative = False\n"))
K("r27-flag-tests-mirrored",
  ("data", "                if attr_value < 0:\n"
           "                    is_fully_negative = True",
   "                if 0 > attr_value:\n"
   "                    is_fully_negative = True"))
B("r22-zone-minutes-floor-raised", ["C06"], ["R22"],
  ("data", "            min_minutes = 1 - CALENDAR.MINUTES_IN_HOUR",
   "            min_minutes = 2 - CALENDAR.MINUTES_IN_HOUR"), canary=True)
K("r22-zone-minutes-floor-respelled",
  ("data", "            min_minutes = 1 - CALENDAR.MINUTES_IN_HOUR",
   "            min_minutes = -(CALENDAR.MINUTES_IN_HOUR - 1)"))
B("r19-get-next-for-single-point", ["C13"], ["R19"],
  ("data", "        if self._repetitions == 1 or timepoint is None:\n"
           "            return None\n"
           "        next_timepoint = timepoint + self._duration",
   "        if timepoint is None:\n"
   "            return None\n"
   "        next_timepoint = timepoint + self._duration"))


# ===================================================== round-9 rules =======
B("r80-seconds-rounded-after-carry", ["C06"], ["R80"],
  ("data", "            self._second_of_minute = seconds\n",
   "            self._second_of_minute = round(seconds, 6)\n"), canary=True)
B("r80-tolerance-in-dump-format", ["C08"], ["R80"],
  ("data", "    return reference_timepoint + Duration(seconds=float(num_seconds))",
   "    if abs(float(num_seconds)) < 1e-9:\n"
   "        num_seconds = 0\n"
   "    return reference_timepoint + Duration(seconds=float(num_seconds))"))
B("r39-week-count-clamped", ["C03"], ["R39"],
  ("data", "    return diff_days // CALENDAR.DAYS_IN_WEEK\n",
   "    return max(diff_days // CALENDAR.DAYS_IN_WEEK,\n"
   "               CALENDAR.MAX_WEEKS_IN_YEAR - 1)\n"), canary=True)
K("r39-week-count-through-a-local",
  ("data", "    return diff_days // CALENDAR.DAYS_IN_WEEK\n",
   "    num_weeks = diff_days // CALENDAR.DAYS_IN_WEEK\n"
   "    return num_weeks\n"))
B("r08-duration-sub-borrows", ["C11"], ["R08"],
  ("data", "    def __sub__(self, other):\n        return self + -1 * other\n\n"
           "    def __mul__(self, other):",
   "    def __sub__(self, other):\n"
   "        new = self + -1 * other\n"
   "        if new._months is not None and new._months < 0 < new._years:\n"
   "            new._years -= 1\n"
   "            new._months += CALENDAR.MONTHS_IN_YEAR\n"
   "        return new\n\n"
   "    def __mul__(self, other):"), canary=True)
K("r08-duration-sub-through-a-local",
  ("data", "    def __sub__(self, other):\n        return self + -1 * other\n\n"
           "    def __mul__(self, other):",
   "    def __sub__(self, other):\n"
   "        difference = self + -1 * other\n"
   "        return difference\n\n"
   "    def __mul__(self, other):"))
B("r08-months-stepped-in-utc", ["C05"], ["R08"],
  ("data", "            new = new.add_months(duration._months)",
   "            new = new.to_utc().add_months(\n"
   "                duration._months).to_time_zone(new._time_zone)"),
  canary=True)
B("r38-minutes-signed-by-hour-value", ["C07"], ["R38"],
  ("parsers", "        self.assumed_time_zone = assumed_time_zone",
   "        if assumed_time_zone is not None:\n"
   "            hours, minutes = assumed_time_zone\n"
   "            if hours < 0:\n"
   "                minutes = -abs(minutes)\n"
   "            assumed_time_zone = (hours, minutes)\n"
   "        self.assumed_time_zone = assumed_time_zone"), canary=True)
B("r20-int-of-parsed-float", ["C09"], ["R20"],
  ("parsers", "                    if \",\" in value:\n"
              "                        value = value.replace(\",\", \".\")\n"
              "                    value = float(value)",
   "                    if \",\" in value:\n"
   "                        value = value.replace(\",\", \".\")\n"
   "                    value = float(value)\n"
   "                    if value == int(value):\n"
   "                        value = int(value)"))
B("r44-epoch-count-corrected", ["C18"], ["R44"],
  ("data", "        return str(int(CALENDAR.SECONDS_IN_DAY * days + seconds))",
   "        total = CALENDAR.SECONDS_IN_DAY * days + seconds\n"
   "        if total < 0:\n"
   "            total -= 1\n"
   "        return str(int(total))"), canary=True)
K("r44-epoch-count-through-a-local",
  ("data", "        return str(int(CALENDAR.SECONDS_IN_DAY * days + seconds))",
   "        total = seconds + days * CALENDAR.SECONDS_IN_DAY\n"
   "        return str(int(total))"))
B("r26-designator-table-skipped", ["C10"], ["R26"],
  ("parsers", "        for rec_regex in self.DURATION_REGEXES:",
   "        regexes = self.DURATION_REGEXES\n"
   "        if expression[1:5].isdigit():\n"
   "            regexes = ()\n"
   "        for rec_regex in regexes:"))
B("r01-zone-of-result-written-in-place", ["C16"], ["R01"],
  ("data", "        new._time_zone = dest_time_zone\n        return new",
   "        new._time_zone = dest_time_zone\n"
   "        if new._time_zone._hours * new._time_zone._minutes < 0:\n"
   "            new._time_zone._minutes = -new._time_zone._minutes\n"
   "        return new"), canary=True)
B("r39-year-skip-by-common-length", ["C18"], ["R39"],
  ("data", "                    while num_days != self._day_of_month:\n"
           "                        start_year += 1\n",
   "                    while num_days != self._day_of_month:\n"
   "                        start_year += 1\n"
   "                        if (self._day_of_month - num_days >\n"
   "                                CALENDAR.DAYS_IN_YEAR):\n"
   "                            num_days += get_days_in_year(start_year)\n"
   "                            continue\n"))
B("r30-offsets-split-at-comma", ["C19"], ["R30"],
  ("main", "        args.offsets1 = [item.replace(\"\\\\\", \"\") for item in args.offsets1]",
   "        args.offsets1 = [part for item in args.offsets1\n"
   "                         for part in item.replace(\"\\\\\", \"\").split(\",\")]"))
