"""Self-validation corpus: source transformers over the *current* text of
the package.  ``breaks`` = a realistic still-compiling edit that breaks the
property (the named rule must report it); ``preserves`` = a
behaviour-preserving edit (every rule must stay silent).  A transformer whose
anchor text is not in the current tree raises LookupError and is skipped."""
import re


class Mut:
    def __init__(self, mid, kind, props, rules, edits, canary=False,
                 note=""):
        self.id = mid
        self.kind = kind
        self.props = props
        self.rules = rules
        self.edits = edits        # list of (module, old, new[, count])
        self.canary = canary
        self.note = note

    def apply(self, texts):
        for ed in self.edits:
            if callable(ed):
                texts = ed(texts)
                continue
            mod, old, new = ed[0], ed[1], ed[2]
            count = ed[3] if len(ed) > 3 else 1
            src = texts[mod]
            if isinstance(old, re.Pattern):
                if not old.search(src):
                    raise LookupError(old.pattern)
                src = old.sub(new, src, count=count or 0)
            else:
                n = src.count(old)
                if n == 0 or (count and n < count):
                    raise LookupError(old)
                if count == 0:
                    src = src.replace(old, new)
                elif count == 1 and n != 1:
                    # ambiguous anchor: use the first occurrence
                    src = src.replace(old, new, 1)
                else:
                    src = src.replace(old, new, count)
            texts[mod] = src
        return texts


CORPUS = {}


def B(mid, props, rules, *edits, canary=False, note=""):
    assert mid not in CORPUS, mid
    CORPUS[mid] = Mut(mid, "breaks", tuple(props), tuple(rules), list(edits),
                      canary, note)


def K(mid, *edits, note=""):
    assert mid not in CORPUS, mid
    CORPUS[mid] = Mut(mid, "preserves", (), (), list(edits), False, note)


# ============================================================== C15 =======
B("c15-drop-key-days-in-month", ["C15"], ["R04"],
  ("data", "def _get_days_in_month(month_of_year, year, _):",
   "def _get_days_in_month(month_of_year, year):"),
  ("data", "return _get_days_in_month(month_of_year, year, CALENDAR.mode)",
   "return _get_days_in_month(month_of_year, year)"), canary=True)
B("c15-const-key-weeks", ["C15"], ["R04"],
  ("data", "return _get_weeks_in_year(year, CALENDAR.mode)",
   "return _get_weeks_in_year(year, None)"))
B("c15-drop-key-iter-months", ["C15"], ["R04"],
  ("data", "        is_leap_year, month_of_year, day_of_month, CALENDAR.mode, in_reverse)",
   "        is_leap_year, month_of_year, day_of_month, None, in_reverse)"))
B("c15-cache-on-wrapper", ["C15"], ["R04"],
  ("data", "def get_days_in_month(month_of_year, year=\"leap\"):",
   "@lru_cache(maxsize=100000)\ndef get_days_in_month(month_of_year, year=\"leap\"):"))
B("c15-new-unkeyed-helper", ["C15"], ["R04"],
  ("data", "def get_days_in_year(year):",
   "@lru_cache(maxsize=None)\ndef _year_seconds(year):\n"
   "    return get_days_in_year(year) * CALENDAR.SECONDS_IN_DAY\n\n\n"
   "def get_days_in_year(year):"))
B("c15-default-arg-capture", ["C15"], ["R05"],
  ("data", "def get_days_in_year_range(start_year, end_year):",
   "def get_days_in_year_range(start_year, end_year,\n"
   "                           _n=CALENDAR.DAYS_IN_YEAR):"), canary=True)
B("c15-module-const-capture", ["C15"], ["R05"],
  ("data", "TIMEPOINT_DUMPER_MAP = {",
   "_MONTHS = CALENDAR.DAYS_IN_MONTHS\n\n\nTIMEPOINT_DUMPER_MAP = {"))
B("c15-second-writer", ["C15"], ["R05"],
  ("datetimeoper", "        Calendar.default().set_mode(calendar_mode)",
   "        Calendar.default().set_mode(calendar_mode)\n"
   "        Calendar.default().DAYS_IN_YEAR_LEAP = 366"))
B("c15-stale-read-in-set-mode", ["C15"], ["R06"],
  ("data", "        self.DAYS_IN_YEAR = sum(self.DAYS_IN_MONTHS)\n", ""),
  ("data", "        self.MONTHS_IN_YEAR = len(self.DAYS_IN_MONTHS)\n",
   "        self.MONTHS_IN_YEAR = len(self.DAYS_IN_MONTHS)\n"
   "        self.HOURS_IN_YEAR = self.DAYS_IN_YEAR * self.HOURS_IN_DAY\n"
   "        self.DAYS_IN_YEAR = sum(self.DAYS_IN_MONTHS)\n"), canary=True)
B("c15-conditional-derived", ["C15"], ["R06"],
  ("data", "        self.DAYS_IN_YEAR_LEAP = sum(self.DAYS_IN_MONTHS_LEAP)",
   "        if mode == self.MODE_GREGORIAN:\n"
   "            self.DAYS_IN_YEAR_LEAP = sum(self.DAYS_IN_MONTHS_LEAP)"))
B("c15-wrong-table-360", ["C15"], ["R07"],
  ("data", "DAYS_IN_MONTHS_360 = 12 * (30,)",
   "DAYS_IN_MONTHS_360 = 12 * (31,)"), canary=True)
B("c15-365-maps-to-366", ["C15"], ["R07"],
  ("data", "MODE_365_DAY: (DAYS_IN_MONTHS_365, None),",
   "MODE_365_DAY: (DAYS_IN_MONTHS_366, None),"))
B("c15-leap-sum-wrong-table", ["C15"], ["R07"],
  ("data", "self.DAYS_IN_YEAR_LEAP = sum(self.DAYS_IN_MONTHS_LEAP)",
   "self.DAYS_IN_YEAR_LEAP = sum(self.DAYS_IN_MONTHS)"))
B("c15-leap-table-order", ["C15"], ["R07"],
  ("data", "[(4, True), (100, False), (400, True)]",
   "[(400, True), (100, False), (4, True)]"))
B("c15-leap-early-break", ["C15"], ["R07"],
  ("data", "            year_is_leap = is_leap_factor\n    return year_is_leap",
   "            year_is_leap = is_leap_factor\n            break\n    return year_is_leap"))
K("c15k-new-keyed-helper",
  ("data", "def get_days_in_year(year):",
   "def get_seconds_in_year(year):\n"
   "    return _get_seconds_in_year(year, CALENDAR.mode)\n\n\n"
   "@lru_cache(maxsize=None)\n"
   "def _get_seconds_in_year(year, mode_key):\n"
   "    return get_days_in_year(year) * CALENDAR.SECONDS_IN_DAY\n\n\n"
   "def get_days_in_year(year):"))
K("c15k-key-via-local",
  ("data", "    return _get_days_in_year(year, CALENDAR.mode)",
   "    active = CALENDAR.mode\n    return _get_days_in_year(year, active)"))
K("c15k-key-keyword",
  ("data", "    return _get_weeks_in_year(year, CALENDAR.mode)",
   "    return _get_weeks_in_year(year, _=CALENDAR.mode)"))
K("c15k-reorder-set-mode",
  ("data", "        self.DAYS_IN_YEAR_LEAP = sum(self.DAYS_IN_MONTHS_LEAP)\n"
           "        self.MAX_DAYS_IN_MONTH = max(self.DAYS_IN_MONTHS)\n",
   "        self.MAX_DAYS_IN_MONTH = max(self.DAYS_IN_MONTHS)\n"
   "        self.DAYS_IN_YEAR_LEAP = sum(self.DAYS_IN_MONTHS_LEAP)\n"))
K("c15k-table-respelled",
  ("data", "DAYS_IN_MONTHS_360 = 12 * (30,)",
   "DAYS_IN_MONTHS_360 = (30,) * 12"))
