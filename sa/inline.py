"""Inlining of extracted private helpers before analysis.

A behaviour-preserving "extract method" refactoring moves statements that a
rule anchors on into a new private helper.  To keep the rules phrased over
the functions the properties name, every *non-anchor* private helper (a
function the rules never refer to by name) whose only uses are direct calls
inside its own module is inlined into its call sites, and removed, before
the model is indexed.  The transformation is purely syntactic (AST to AST),
keeps the original line numbers on the moved nodes, and gives up (leaves the
helper and its calls alone) whenever a call site or the helper's shape is
outside the handled cases.
"""
import ast
import copy

# Functions the rules (and the properties) refer to by name: never inlined.
ANCHORS = {
    "_tick_over", "_tick_over_day_of_month", "_copy", "_check_bounds",
    "_cmp", "_roll_over_24", "_get_dump_format", "_get_truncated_dump_format",
    "_decimal_string", "_get_is_in_bounds", "_bounds_checker", "_int_caster",
    "_type_checker", "_get_non_nominal_seconds", "_translate_strftime_token",
    "_create_timepoint_from_info", "_parse_from_custom_regex",
    "_generate_regexes", "_dump_expression_with_properties",
    "_get_expression_and_properties", "_iter_months_days",
    "_get_days_in_year_range", "_get_days_in_year", "_get_days_in_month",
    "_get_weeks_in_year", "_get_calendar_date_week_date_start",
    "_get_days_since_1_ad", "_get_ordinal_date_week_date_start",
    "_format_remainder",
}
MAX_STMTS = 60


class CannotInline(Exception):
    pass


def _is_private(name):
    return name.startswith("_") and not (name.startswith("__") and
                                         name.endswith("__"))


def _body_wo_doc(fn):
    body = list(fn.body)
    if body and isinstance(body[0], ast.Expr) and isinstance(
            body[0].value, ast.Constant) and isinstance(
                body[0].value.value, str):
        body = body[1:]
    return body


def _has(node, types):
    return any(isinstance(n, types) for n in ast.walk(node))


def _closed_lambdas(fn):
    """Every lambda in fn uses only its own parameters and module-level
    names - none of fn's parameters or locals (which inlining renames) -
    and its parameters are no locals of fn either."""
    own = {a.arg for a in fn.args.args}
    for n in ast.walk(fn):
        if isinstance(n, ast.Name) and isinstance(n.ctx, ast.Store):
            own.add(n.id)
    for lam in [n for n in ast.walk(fn) if isinstance(n, ast.Lambda)]:
        a = lam.args
        if a.vararg or a.kwarg or a.kwonlyargs or a.defaults:
            return False
        params = {x.arg for x in a.args}
        if params & own:
            return False
        for n in ast.walk(lam.body):
            if isinstance(n, ast.Name) and n.id not in params and \
                    n.id in own:
                return False
            if isinstance(n, (ast.Lambda, ast.NamedExpr)):
                return False
    return True


class Helper:
    def __init__(self, fn, cls, kind):
        self.fn = fn
        self.cls = cls          # ClassDef or None
        self.kind = kind        # "method" | "static" | "function"
        self.name = fn.name
        self.uses = 0


def find_helpers(trees):
    """{(module, class name or None, func name): Helper} of inlinable
    candidates (shape conditions only)."""
    out = {}
    for mod, tree in trees.items():
        def consider(fn, cls):
            if not _is_private(fn.name) or fn.name in ANCHORS:
                return
            decs = [ast.unparse(d) for d in fn.decorator_list]
            if any(d not in ("staticmethod",) for d in decs):
                return
            a = fn.args
            if a.vararg or a.kwarg or a.kwonlyargs or a.posonlyargs:
                return
            if _has(fn, (ast.Yield, ast.YieldFrom, ast.Global,
                         ast.Nonlocal, ast.Await)):
                return
            if _has(fn, ast.Lambda) and not _closed_lambdas(fn):
                return
            if any(isinstance(n, (ast.FunctionDef, ast.ClassDef))
                   for n in ast.walk(fn) if n is not fn):
                return
            if sum(1 for n in ast.walk(fn) if isinstance(n, ast.stmt)) > \
                    MAX_STMTS:
                return
            # recursion
            for n in ast.walk(fn):
                if isinstance(n, ast.Attribute) and n.attr == fn.name:
                    return
                if isinstance(n, ast.Name) and n.id == fn.name:
                    return
            kind = "function" if cls is None else (
                "static" if "staticmethod" in decs else "method")
            out[(mod, cls.name if cls else None, fn.name)] = Helper(
                fn, cls, kind)
        for st in tree.body:
            if isinstance(st, ast.FunctionDef):
                consider(st, None)
            elif isinstance(st, ast.ClassDef):
                for b in st.body:
                    if isinstance(b, ast.FunctionDef):
                        consider(b, st)
    return out


def _call_target(call, mod, cls_name, helpers):
    """Helper a Call node invokes (syntactically), or None."""
    f = call.func
    if isinstance(f, ast.Name):
        return helpers.get((mod, None, f.id))
    if isinstance(f, ast.Attribute) and isinstance(f.value, ast.Name):
        base = f.value.id
        if base in ("self", "cls") and cls_name is not None:
            return helpers.get((mod, cls_name, f.attr))
        h = helpers.get((mod, base, f.attr))
        if h is not None and h.kind == "static":
            return h
    if isinstance(f, ast.Attribute) and _simple(f.value) and \
            _is_private(f.attr):
        # a private method called on another object (`new._helper(...)`):
        # the name must belong to exactly one helper of this module
        cands = [h for (m, c, n), h in helpers.items()
                 if n == f.attr and m == mod and h.kind == "method"
                 and getattr(h, "unique_name", False)]
        if len(cands) == 1:
            return cands[0]
    return None


def _only_direct_calls(trees, helpers):
    """Drop helpers referenced other than as a direct same-module call."""
    bad = set()
    names = {}
    for key, h in helpers.items():
        names.setdefault(h.name, []).append(key)
    for mod, tree in trees.items():
        parents = {}
        for n in ast.walk(tree):
            for c in ast.iter_child_nodes(n):
                parents[id(c)] = n
        for n in ast.walk(tree):
            nm = None
            if isinstance(n, ast.Name) and n.id in names:
                nm = n.id
            elif isinstance(n, ast.Attribute) and n.attr in names:
                nm = n.attr
            elif isinstance(n, ast.Constant) and isinstance(
                    n.value, str) and n.value in names:
                for k in names[n.value]:
                    bad.add(k)         # getattr(obj, "_helper") style
                continue
            if nm is None:
                continue
            p = parents.get(id(n))
            direct = isinstance(p, ast.Call) and p.func is n
            for k in names[nm]:
                if k[0] != mod or not direct:
                    # a same-named attribute of something else in another
                    # module: be conservative
                    if k[0] != mod and not isinstance(n, ast.Name):
                        bad.add(k)
                    elif k[0] == mod and not direct:
                        # the definition itself is a FunctionDef, not a Name
                        bad.add(k)
    out = {k: h for k, h in helpers.items() if k not in bad}
    # is the helper's name defined exactly once in the whole package?
    defs = {}
    for mod, tree in trees.items():
        for n in ast.walk(tree):
            if isinstance(n, (ast.FunctionDef, ast.AsyncFunctionDef)):
                defs[n.name] = defs.get(n.name, 0) + 1
    for k, h in out.items():
        h.unique_name = defs.get(h.name, 0) == 1
    return out


class _Subst(ast.NodeTransformer):
    def __init__(self, mapping, renames):
        self.mapping = mapping      # name -> expression node
        self.renames = renames      # name -> new name

    def visit_Name(self, node):
        if node.id in self.mapping and isinstance(node.ctx, ast.Load):
            return copy.deepcopy(self.mapping[node.id])
        if node.id in self.renames:
            return ast.copy_location(
                ast.Name(id=self.renames[node.id], ctx=node.ctx), node)
        return node


def _simple(e):
    if isinstance(e, (ast.Name, ast.Constant)):
        return True
    if isinstance(e, ast.Attribute):
        return _simple(e.value)
    if isinstance(e, ast.Subscript):
        return _simple(e.value) and isinstance(e.slice, ast.Constant)
    return False


def _assigned_names(fn):
    out = set()
    for n in ast.walk(fn):
        if isinstance(n, ast.Name) and isinstance(n.ctx, (ast.Store,
                                                         ast.Del)):
            out.add(n.id)
        if isinstance(n, ast.ExceptHandler) and n.name:
            out.add(n.name)
    return out


def _names_in(node):
    return {n.id for n in ast.walk(node) if isinstance(n, ast.Name)}


def _instantiate(h, call, caller_names):
    """-> (prelude statements, body statements) of the helper with its
    parameters bound to the call's arguments."""
    fn = h.fn
    params = [a.arg for a in fn.args.args]
    args = list(call.args)
    if any(isinstance(a, ast.Starred) for a in args) or any(
            k.arg is None for k in call.keywords):
        raise CannotInline("star args")
    bound = {}
    if h.kind == "method":
        recv = call.func.value
        bound[params[0]] = recv
        params = params[1:]
    if len(args) > len(params):
        raise CannotInline("arity")
    for p, a in zip(params, args):
        bound[p] = a
    for k in call.keywords:
        if k.arg not in params or k.arg in bound:
            raise CannotInline("keyword")
        bound[k.arg] = k.value
    defaults = fn.args.defaults
    dparams = [a.arg for a in fn.args.args][len(fn.args.args) -
                                            len(defaults):]
    for p, dv in zip(dparams, defaults):
        bound.setdefault(p, dv)
    for p in params:
        if p not in bound:
            raise CannotInline("missing argument " + p)
    assigned = _assigned_names(fn)
    locals_ = assigned - set(a.arg for a in fn.args.args)
    renames = {}
    for n in sorted(locals_):
        if n in caller_names:
            renames[n] = "%s__%s" % (n, h.name.strip("_"))
    mapping = {}
    prelude = []
    for p, e in bound.items():
        # how often is the parameter read?
        reads = sum(1 for n in ast.walk(fn) if isinstance(n, ast.Name) and
                    n.id == p and isinstance(n.ctx, ast.Load))
        if p not in assigned and (_simple(e) or reads <= 1):
            mapping[p] = e
        else:
            newp = p if p not in caller_names else "%s__%s" % (
                p, h.name.strip("_"))
            if newp != p:
                renames[p] = newp
            prelude.append(ast.copy_location(ast.Assign(
                targets=[ast.Name(id=newp, ctx=ast.Store())],
                value=copy.deepcopy(e)), call))
    body = [copy.deepcopy(s) for s in _body_wo_doc(fn)]
    sub = _Subst(mapping, renames)
    body = [sub.visit(s) for s in body]
    for s in prelude + body:
        ast.fix_missing_locations(s)
    return prelude, body


def _lower(stmts, emit):
    """Replace returns by ``emit(value)`` statements; the statements that
    follow a conditional return are moved into the other branch.
    -> (statements, always_returns)"""
    out = []
    for i, s in enumerate(stmts):
        if isinstance(s, ast.Return):
            out.extend(emit(s))
            return out, True
        if isinstance(s, ast.If) and _has(s, ast.Return):
            b, br = _lower(s.body, emit)
            o, orr = _lower(s.orelse, emit)
            rest = stmts[i + 1:]
            if br and orr:
                out.append(ast.copy_location(ast.If(
                    test=s.test, body=b or [ast.Pass()], orelse=o), s))
                return out, True
            r, rr = _lower(rest, emit)
            if br:
                out.append(ast.copy_location(ast.If(
                    test=s.test, body=b or [ast.Pass()], orelse=o + r), s))
                return out, rr
            if orr:
                out.append(ast.copy_location(ast.If(
                    test=s.test, body=(b + r) or [ast.Pass()],
                    orelse=o or []), s))
                return out, rr
            # returns deeper inside: the continuation goes into both
            # branches (duplicated; helpers are small)
            b2, br2 = _lower(list(s.body) + [copy.deepcopy(x) for x in rest],
                             emit)
            o2, orr2 = _lower(list(s.orelse) +
                              [copy.deepcopy(x) for x in rest], emit)
            out.append(ast.copy_location(ast.If(
                test=s.test, body=b2 or [ast.Pass()], orelse=o2), s))
            return out, br2 and orr2
        if _has(s, ast.Return):
            raise CannotInline("return inside loop/try")
        out.append(s)
    return out, False


def _as_expression(body):
    """Statement list consisting of guard returns only
        [if c: return A]* return B
    -> the equivalent expression (A if c else B); None otherwise."""
    if not body:
        return None
    st = body[0]
    if isinstance(st, ast.Return) and st.value is not None and len(body) == 1:
        return st.value
    if isinstance(st, ast.If) and len(st.body) == 1 and isinstance(
            st.body[0], ast.Return) and st.body[0].value is not None:
        rest = st.orelse if st.orelse else body[1:]
        if st.orelse and body[1:]:
            return None
        tail = _as_expression(list(rest))
        if tail is None:
            return None
        return ast.copy_location(ast.IfExp(
            test=st.test, body=st.body[0].value, orelse=tail), st)
    return None


def _expr_like(h):
    body = _body_wo_doc(h.fn)
    return _as_expression(body) is not None


class _Inliner:
    def __init__(self, mod, helpers):
        self.mod = mod
        self.helpers = helpers
        self.inlined = {}       # helper key -> count
        self.failed = set()

    def run_function(self, fn, cls_name):
        self.cls_name = cls_name
        self.caller_names = _names_in(fn) | {a.arg for a in fn.args.args}
        for _round in range(4):
            self.changed = False
            fn.body = self.block(fn.body)
            if not self.changed:
                break

    def _hoist(self, s):
        call = _hoistable_call(self, s.value)
        if call is None:
            return None
        h = self._target(call)
        tmp = "%s__result" % h.name.strip("_")
        k = 2
        while tmp in self.caller_names:
            tmp = "%s__result%d" % (h.name.strip("_"), k)
            k += 1
        self.caller_names.add(tmp)

        class _R(ast.NodeTransformer):
            def visit(self_, node):
                if node is call:
                    return ast.copy_location(
                        ast.Name(id=tmp, ctx=ast.Load()), node)
                return ast.NodeTransformer.generic_visit(self_, node)
        pre = ast.copy_location(ast.Assign(
            targets=[ast.Name(id=tmp, ctx=ast.Store())], value=call), s)
        s.value = _R().visit(s.value)
        ast.fix_missing_locations(pre)
        ast.fix_missing_locations(s)
        return [pre, s]

    def _target(self, call):
        if not isinstance(call, ast.Call):
            return None
        h = _call_target(call, self.mod, self.cls_name, self.helpers)
        return h

    def block(self, stmts):
        out = []
        for s in stmts:
            out.extend(self.stmt(s))
        return out

    def stmt(self, s):
        # recurse into compound statements first
        for field in ("body", "orelse", "finalbody"):
            seq = getattr(s, field, None)
            if isinstance(seq, list) and seq and isinstance(seq[0], ast.stmt):
                setattr(s, field, self.block(seq))
        if isinstance(s, ast.Try):
            for hd in s.handlers:
                hd.body = self.block(hd.body)
        call = None
        mode = None
        if isinstance(s, ast.Expr) and self._target(s.value):
            call, mode = s.value, "discard"
        elif isinstance(s, ast.Assign) and len(s.targets) == 1 and \
                self._target(s.value):
            call, mode = s.value, "assign"
        elif isinstance(s, ast.Return) and self._target(s.value):
            call, mode = s.value, "return"
        if call is not None:
            h = self._target(call)
            try:
                prelude, body = _instantiate(h, call, self.caller_names)
                if mode == "return":
                    if not body or not isinstance(body[-1], (ast.Return,
                                                             ast.Raise)):
                        if not (body and isinstance(body[-1], ast.If) and
                                _always_leaves(body[-1])):
                            body.append(ast.copy_location(ast.Return(
                                value=ast.Constant(value=None)), s))
                    new = prelude + body
                elif mode == "assign":
                    tgt = s.targets[0]

                    def emit(r, tgt=tgt, s=s):
                        v = r.value if r.value is not None else \
                            ast.Constant(value=None)
                        return [ast.copy_location(ast.Assign(
                            targets=[copy.deepcopy(tgt)], value=v), r)]
                    lowered, always = _lower(body, emit)
                    if not always:
                        lowered = lowered + emit(ast.copy_location(
                            ast.Return(value=None), s))
                    new = prelude + lowered
                else:
                    def emit(r):
                        if r.value is not None and _has(r.value, ast.Call):
                            return [ast.copy_location(ast.Expr(
                                value=r.value), r)]
                        return []
                    lowered, always = _lower(body, emit)
                    new = prelude + (lowered or [ast.copy_location(
                        ast.Pass(), s)])
                for n in new:
                    ast.fix_missing_locations(n)
                key = (self.mod, h.cls.name if h.cls else None, h.name)
                self.inlined[key] = self.inlined.get(key, 0) + 1
                self.changed = True
                self.caller_names |= set().union(*[_names_in(n)
                                                   for n in new]) \
                    if new else set()
                return new
            except CannotInline:
                self.failed.add((self.mod, h.cls.name if h.cls else None,
                                 h.name))
                return [s]
        # a statement-bodied helper called inside a larger expression of a
        # simple statement: hoist the call into a temporary first
        if isinstance(s, (ast.Return, ast.Assign, ast.AugAssign, ast.Expr)) \
                and getattr(s, "value", None) is not None:
            hoisted = self._hoist(s)
            if hoisted is not None:
                self.changed = True
                return self.block(hoisted)
        # expression-level substitution of single-return helpers
        repl = _ExprInline(self)
        s2 = repl.visit(s)
        if repl.did:
            self.changed = True
            ast.fix_missing_locations(s2)
        return [s2]


def _hoistable_call(inl, root):
    """First helper call nested in `root` (not root itself) that is
    evaluated unconditionally and whose helper is not a single return."""
    blocked = (ast.IfExp, ast.BoolOp, ast.Lambda, ast.ListComp, ast.SetComp,
               ast.DictComp, ast.GeneratorExp)

    def walk(n, top):
        if isinstance(n, blocked):
            return None
        if isinstance(n, ast.Call) and not top:
            h = inl._target(n)
            if h is not None and not _expr_like(h):
                return n
        for c in ast.iter_child_nodes(n):
            r = walk(c, False)
            if r is not None:
                return r
        return None
    return walk(root, True)


def _always_leaves(ifnode):
    def leaves(body):
        if not body:
            return False
        last = body[-1]
        if isinstance(last, (ast.Return, ast.Raise)):
            return True
        if isinstance(last, ast.If):
            return leaves(last.body) and leaves(last.orelse)
        return False
    return leaves(ifnode.body) and leaves(ifnode.orelse)


class _ExprInline(ast.NodeTransformer):
    def __init__(self, inl):
        self.inl = inl
        self.did = False

    def visit_FunctionDef(self, node):
        return node

    def visit_Call(self, node):
        self.generic_visit(node)
        h = self.inl._target(node)
        if h is None or not _expr_like(h):
            if h is not None:
                self.inl.failed.add((self.inl.mod,
                                     h.cls.name if h.cls else None, h.name))
            return node
        try:
            prelude, body = _instantiate(h, node, self.inl.caller_names)
        except CannotInline:
            self.inl.failed.add((self.inl.mod,
                                 h.cls.name if h.cls else None, h.name))
            return node
        if prelude:
            self.inl.failed.add((self.inl.mod,
                                 h.cls.name if h.cls else None, h.name))
            return node
        key = (self.inl.mod, h.cls.name if h.cls else None, h.name)
        self.inl.inlined[key] = self.inl.inlined.get(key, 0) + 1
        self.did = True
        return ast.copy_location(_as_expression(body), node)


def inline_local_functions(tree):
    """Nested `def f(params): return <expr>` used only by direct calls in
    the enclosing function: substituted at the call sites. -> count"""
    count = 0
    for fn in [n for n in ast.walk(tree) if isinstance(n, ast.FunctionDef)]:
        for inner in [b for b in fn.body if isinstance(b, ast.FunctionDef)]:
            body = _body_wo_doc(inner)
            a = inner.args
            if (inner.decorator_list or len(body) != 1
                    or not isinstance(body[0], ast.Return)
                    or body[0].value is None or a.vararg or a.kwarg
                    or a.kwonlyargs or a.posonlyargs or a.defaults
                    or _has(inner, (ast.Yield, ast.YieldFrom, ast.Lambda,
                                    ast.Await))):
                continue
            name = inner.name
            params = [x.arg for x in a.args]
            parents = {}
            for n in ast.walk(fn):
                for c in ast.iter_child_nodes(n):
                    parents[id(c)] = n
            refs = [n for n in ast.walk(fn) if isinstance(n, ast.Name)
                    and n.id == name]
            if not refs or any(
                    id(n) in {id(x) for x in ast.walk(inner)} for n in refs):
                continue
            ok = True
            for n in refs:
                p = parents.get(id(n))
                if not (isinstance(p, ast.Call) and p.func is n and
                        len(p.args) == len(params) and not p.keywords and
                        not any(isinstance(x, ast.Starred) for x in p.args)):
                    ok = False
            if not ok:
                continue
            # parameters must not be captured differently: plain substitution
            expr = body[0].value
            if _has(expr, ast.NamedExpr):
                continue

            class _R(ast.NodeTransformer):
                def visit_Call(self, node):
                    self.generic_visit(node)
                    if isinstance(node.func, ast.Name) and \
                            node.func.id == name:
                        sub = _Subst(dict(zip(params, node.args)), {})
                        return ast.copy_location(
                            sub.visit(copy.deepcopy(expr)), node)
                    return node
            fn.body = [b for b in fn.body if b is not inner]
            for i, st in enumerate(fn.body):
                fn.body[i] = _R().visit(st)
            ast.fix_missing_locations(fn)
            count += 1
    return count


_LOG_METHODS = {"debug", "info", "warning", "warn", "error", "exception",
                "critical", "log"}


def strip_logging(trees):
    """Statements that only emit a log record through the standard logging
    module (a module-level `X = logging.getLogger(...)` or `logging.debug`
    itself) are noise for every rule: removed.  -> count"""
    count = 0
    for tree in trees.values():
        loggers = {"logging"} if any(
            isinstance(st, ast.Import) and any(a.name == "logging"
                                               for a in st.names)
            for st in tree.body) else set()
        for st in tree.body:
            if isinstance(st, ast.Assign) and len(st.targets) == 1 and \
                    isinstance(st.targets[0], ast.Name) and isinstance(
                        st.value, ast.Call) and ast.unparse(
                            st.value.func) in ("logging.getLogger",
                                               "getLogger"):
                loggers.add(st.targets[0].id)
        if not loggers:
            continue
        for n in ast.walk(tree):
            for fld in ("body", "orelse", "finalbody"):
                blk = getattr(n, fld, None)
                if not (isinstance(blk, list) and blk and isinstance(
                        blk[0], ast.stmt)):
                    continue
                keep = []
                for st in blk:
                    v = getattr(st, "value", None)
                    if isinstance(st, ast.Expr) and isinstance(
                            v, ast.Call) and isinstance(
                                v.func, ast.Attribute) and isinstance(
                                    v.func.value, ast.Name) and \
                            v.func.value.id in loggers and \
                            v.func.attr in _LOG_METHODS:
                        count += 1
                        continue
                    keep.append(st)
                if len(keep) != len(blk):
                    blk[:] = keep or [ast.Pass()]
    return count


def inline_trees(trees):
    """trees: {module: ast.Module}. Mutates the trees. -> report dict."""
    strip_logging(trees)
    local = 0
    for tree in trees.values():
        local += inline_local_functions(tree)
    helpers = _only_direct_calls(trees, find_helpers(trees))
    if not helpers:
        return {"inlined": {}, "kept": []}
    total = {}
    failed = set()
    for mod, tree in trees.items():
        inl = _Inliner(mod, helpers)
        for st in tree.body:
            if isinstance(st, ast.FunctionDef):
                if (mod, None, st.name) in helpers:
                    continue
                inl.run_function(st, None)
            elif isinstance(st, ast.ClassDef):
                for b in st.body:
                    if isinstance(b, ast.FunctionDef):
                        inl.run_function(b, st.name)
        # helpers may call helpers: inline inside helper bodies as well
        for (m2, c2, n2), h in helpers.items():
            if m2 == mod:
                inl.run_function(h.fn, c2)
        for k, v in inl.inlined.items():
            total[k] = total.get(k, 0) + v
        failed |= inl.failed
    # remove helpers that are now unreferenced
    removed = []
    for key, h in helpers.items():
        if key in failed:
            continue
        mod = key[0]
        still = False
        for n in ast.walk(trees[mod]):
            if isinstance(n, ast.Call) and _call_target(
                    n, mod, _enclosing_class(trees[mod], n), helpers) is h:
                still = True
                break
        if still:
            continue
        container = h.cls.body if h.cls is not None else trees[mod].body
        if h.fn in container:
            container.remove(h.fn)
            if not container:
                container.append(ast.Pass())
            removed.append("%s.%s%s" % (mod, (key[1] + ".") if key[1]
                                        else "", key[2]))
    return {"inlined": {"%s.%s%s" % (k[0], (k[1] + ".") if k[1] else "",
                                     k[2]): v for k, v in total.items()},
            "removed": removed,
            "kept": sorted("%s.%s%s" % (k[0], (k[1] + ".") if k[1] else "",
                                        k[2]) for k in failed)}


def _enclosing_class(tree, node):
    for st in tree.body:
        if isinstance(st, ast.ClassDef):
            for n in ast.walk(st):
                if n is node:
                    return st.name
    return None
