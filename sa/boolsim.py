"""Decide a small guard function by predicate enumeration.

For a function whose control flow depends only on comparisons between its
parameters / constants and on boolean locals, every valuation of the
comparison atoms is enumerated and the body is evaluated over it (no values,
only the truth of each atom): the outcome (raise / return) per valuation is
the function's decision table, which is compared with the expected one.
The result does not depend on how the tests are nested, ordered, negated or
split into flags.
"""
import ast
import itertools

from .model import AnalysisError, U

_CANON = {
    ast.Lt: ("<", False, True), ast.Gt: ("<", True, True),
    ast.GtE: ("<", False, False), ast.LtE: ("<", True, False),
    ast.Eq: ("==", False, True), ast.NotEq: ("==", False, False),
    ast.Is: ("is", False, True), ast.IsNot: ("is", False, False),
    ast.In: ("in", False, True), ast.NotIn: ("in", False, False),
}


def atom_key(cmp):
    """Compare node -> ((left text, relation, right text), polarity)"""
    if not (isinstance(cmp, ast.Compare) and len(cmp.ops) == 1 and
            type(cmp.ops[0]) in _CANON):
        raise AnalysisError("comparison %s not handled" % U(cmp))
    rel, swap, pol = _CANON[type(cmp.ops[0])]
    a, b = U(cmp.left), U(cmp.comparators[0])
    if swap:
        a, b = b, a
    if rel == "==" and a > b:
        a, b = b, a
    return (a, rel, b), pol


class _Return(Exception):
    pass


class _Raise(Exception):
    pass


def decision_table(fnode):
    """-> (sorted atom keys, {valuation tuple: 'raise' | 'return'})"""
    atoms = set()
    for n in ast.walk(fnode):
        if isinstance(n, ast.Compare):
            atoms.add(atom_key(n)[0])
    atoms = sorted(atoms)
    if len(atoms) > 12:
        raise AnalysisError("too many comparison atoms (%d)" % len(atoms))
    table = {}
    for bits in itertools.product((False, True), repeat=len(atoms)):
        val = dict(zip(atoms, bits))
        try:
            _block(fnode.body, val, {})
            out = "return"
        except _Return:
            out = "return"
        except _Raise:
            out = "raise"
        table[bits] = out
    return atoms, table


def _block(stmts, val, env):
    for st in stmts:
        if isinstance(st, ast.Expr):
            continue
        if isinstance(st, ast.Pass):
            continue
        if isinstance(st, ast.Return):
            raise _Return()
        if isinstance(st, ast.Raise):
            raise _Raise()
        if isinstance(st, ast.Assign) and len(st.targets) == 1 and \
                isinstance(st.targets[0], ast.Name):
            env[st.targets[0].id] = _eval(st.value, val, env)
            continue
        if isinstance(st, ast.If):
            if _eval(st.test, val, env):
                _block(st.body, val, env)
            else:
                _block(st.orelse, val, env)
            continue
        raise AnalysisError("statement `%s` not handled by the predicate "
                            "enumeration" % U(st)[:60])


def _eval(e, val, env):
    if isinstance(e, ast.BoolOp):
        if isinstance(e.op, ast.And):
            r = True
            for v in e.values:
                r = _eval(v, val, env)
                if not r:
                    return r
            return r
        r = False
        for v in e.values:
            r = _eval(v, val, env)
            if r:
                return r
        return r
    if isinstance(e, ast.UnaryOp) and isinstance(e.op, ast.Not):
        return not _eval(e.operand, val, env)
    if isinstance(e, ast.Compare):
        k, pol = atom_key(e)
        return val[k] == pol
    if isinstance(e, ast.Name):
        if e.id in env:
            return env[e.id]
        raise AnalysisError("truth of `%s` is not determined by the "
                            "comparisons" % e.id)
    if isinstance(e, ast.Constant):
        return bool(e.value)
    if isinstance(e, ast.IfExp):
        return _eval(e.body if _eval(e.test, val, env) else e.orelse,
                     val, env)
    raise AnalysisError("expression `%s` not handled by the predicate "
                        "enumeration" % U(e)[:60])
