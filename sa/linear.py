"""Linear normal form of arithmetic expressions over opaque atoms.

An expression built with + - * / // % divmod float int and the calendar's
time radices is brought to  sum(coefficient * atom) + constant , the atoms
being the sub-expressions that are not arithmetic (fields, parameters,
calls) or that are non-linear (int(x), a quotient x // K).  The remainder is
expressed through the quotient,  x % K = x - K * (x // K) , so that carry and
borrow arithmetic written with divmod, with // and %, or with explicit
subtraction compares equal.  Two expressions denote the same number for
every value of the atoms when their forms are equal - which is how the
conservation rules (R69) decide that a decomposition of a time of day or a
normalisation of a duration keeps the total.  No solver, nothing executed.
"""
import ast
from fractions import Fraction

from .model import U

RADICES = {"SECONDS_IN_MINUTE": 60, "MINUTES_IN_HOUR": 60,
           "HOURS_IN_DAY": 24, "DAYS_IN_WEEK": 7, "SECONDS_IN_HOUR": 3600,
           "SECONDS_IN_DAY": 86400, "MINUTES_IN_DAY": 1440}


class Lin(dict):
    """atom text (or 1 for the constant term) -> Fraction"""

    def add(self, other, k=1):
        out = Lin(self)
        for a, c in other.items():
            v = out.get(a, 0) + c * k
            if v == 0:
                out.pop(a, None)
            else:
                out[a] = v
        return out

    def scale(self, k):
        return Lin({a: c * k for a, c in self.items() if c * k != 0})

    def const(self):
        return self.get(1, 0) if set(self) <= {1} else None

    def text(self):
        parts = []
        for a in sorted(self, key=str):
            c = self[a]
            parts.append("%s" % c if a == 1 else "%s*%s" % (c, a))
        return " + ".join(parts) or "0"


def _num(v):
    return Lin({1: Fraction(v)}) if v != 0 else Lin()


def lin(e, env=None):
    """AST expression -> Lin.  env: {atom text: Lin} substitutions applied to
    atoms (e.g. a field known to be None on a path -> zero)."""
    env = env or {}
    if isinstance(e, ast.Constant):
        if isinstance(e.value, bool) or not isinstance(
                e.value, (int, float)):
            return _atom(U(e), env)
        return _num(Fraction(e.value).limit_denominator(10 ** 9))
    if isinstance(e, ast.Attribute) and e.attr in RADICES and "CALENDAR" in \
            U(e.value).upper():
        return _num(RADICES[e.attr])
    if isinstance(e, ast.UnaryOp) and isinstance(e.op, ast.USub):
        return lin(e.operand, env).scale(-1)
    if isinstance(e, ast.UnaryOp) and isinstance(e.op, ast.UAdd):
        return lin(e.operand, env)
    if isinstance(e, ast.BinOp):
        a, b = lin(e.left, env), lin(e.right, env)
        if isinstance(e.op, ast.Add):
            return a.add(b)
        if isinstance(e.op, ast.Sub):
            return a.add(b, -1)
        if isinstance(e.op, ast.Mult):
            if a.const() is not None:
                return b.scale(a.const())
            if b.const() is not None:
                return a.scale(b.const())
            return _atom("(%s)*(%s)" % tuple(sorted([a.text(), b.text()])),
                         env)
        if isinstance(e.op, ast.Div) and b.const() not in (None, 0):
            return a.scale(1 / b.const())
        if isinstance(e.op, ast.FloorDiv) and b.const() not in (None, 0):
            return _quot(a, b.const(), env)
        if isinstance(e.op, ast.Mod) and b.const() not in (None, 0):
            k = b.const()
            return a.add(_quot(a, k, env).scale(k), -1)
        return _atom(U(e), env)
    if isinstance(e, ast.Call) and isinstance(e.func, ast.Name) and len(
            e.args) == 1 and not e.keywords:
        if e.func.id == "float":
            return lin(e.args[0], env)
        if e.func.id == "int":
            a = lin(e.args[0], env)
            if a.const() is not None:
                return _num(int(a.const()))
            if len(a) == 1 and str(next(iter(a))).startswith("quot(") and \
                    next(iter(a.values())) == 1:
                return a        # a quotient is whole already
            return _atom("int(%s)" % a.text(), env)
    if isinstance(e, ast.Subscript) and isinstance(
            e.slice, ast.Constant) and e.slice.value in (0, 1) and \
            isinstance(e.value, ast.Call) and U(e.value.func) == "divmod" \
            and len(e.value.args) == 2:
        a, b = lin(e.value.args[0], env), lin(e.value.args[1], env)
        if b.const() not in (None, 0):
            k = b.const()
            q = _quot(a, k, env)
            return q if e.slice.value == 0 else a.add(q.scale(k), -1)
    return _atom(U(e), env)


def _atom(text, env):
    if text in env:
        return Lin(env[text])
    return Lin({text: Fraction(1)})


def _quot(a, k, env):
    if a.const() is not None:
        return _num(a.const() // k)
    return _atom("quot(%s, %s)" % (a.text(), k), env)


def same(a, b):
    return not a.add(b, -1)


def readable(l):
    """Every atom is a name / field, or int(), a quotient or a product of
    such: the form says what the expression computes.  (An atom that is
    some other call - reduce(...), next(...), getattr(...) - hides part of
    the computation; rules then answer `undecided`.)"""
    import re
    for a in l:
        if a == 1:
            continue
        t = str(a)
        t = re.sub(r"\b(int|quot)\(", "(", t)
        if re.search(r"[A-Za-z_][\w\.]*\s*\(", t) or "[" in t or \
                " for " in t or "lambda" in t:
            return False
    return True
