"""Small flow helpers shared by rules: path conditions of a statement,
definitions of a name, the value alternatives of a two-valued variable."""
import ast

from .model import U, parent, walk_no_nested

_EXIT = (ast.Return, ast.Raise, ast.Continue, ast.Break)


def leaves(body):
    if not body:
        return False
    last = body[-1]
    if isinstance(last, _EXIT):
        return True
    if isinstance(last, ast.If):
        return bool(last.orelse) and leaves(last.body) and leaves(last.orelse)
    return False


def block_of(stmt):
    """-> (owner node, field name, list) of the block holding `stmt`."""
    p = parent(stmt)
    if p is None:
        return None, None, None
    for fld in ("body", "orelse", "finalbody", "handlers"):
        lst = getattr(p, fld, None)
        if isinstance(lst, list) and stmt in lst:
            return p, fld, lst
    return p, None, None


def path_conds(node, stop=None):
    """Conditions under which `node` is reached inside its function:
    [(test expression, polarity)], innermost first.  Covers enclosing
    if/while/conditional-expression branches and earlier sibling guards whose
    body always leaves (`if c: return` before the statement gives (c, False)).
    """
    out = []
    cur = node
    while cur is not None and cur is not stop:
        p = parent(cur)
        if p is None or isinstance(p, (ast.FunctionDef, ast.AsyncFunctionDef,
                                       ast.Lambda, ast.ClassDef)) and \
                not isinstance(cur, ast.stmt):
            break
        if isinstance(cur, ast.stmt):
            owner, fld, lst = block_of(cur)
            if lst is not None and fld != "handlers":
                for prev in lst[:lst.index(cur)]:
                    if isinstance(prev, ast.If) and not prev.orelse and \
                            leaves(prev.body):
                        out.append((prev.test, False))
                    elif isinstance(prev, ast.If) and prev.orelse and \
                            leaves(prev.orelse) and not leaves(prev.body):
                        out.append((prev.test, True))
            if isinstance(owner, ast.If) and fld == "body":
                out.append((owner.test, True))
            elif isinstance(owner, ast.If) and fld == "orelse":
                out.append((owner.test, False))
            elif isinstance(owner, ast.While) and fld == "body":
                out.append((owner.test, True))
        elif isinstance(p, ast.IfExp):
            if cur is p.body:
                out.append((p.test, True))
            elif cur is p.orelse:
                out.append((p.test, False))
        elif isinstance(p, ast.BoolOp):
            idx = p.values.index(cur) if cur in p.values else 0
            for v in p.values[:idx]:
                out.append((v, isinstance(p.op, ast.And)))
        if isinstance(p, (ast.FunctionDef, ast.AsyncFunctionDef, ast.Lambda)):
            break
        cur = p
    return out


def cond_text(conds):
    return " and ".join(("" if pol else "not ") + "(" + U(t) + ")"
                        for t, pol in conds)


def stores_of(fnode, name):
    """Assignments (Assign/AugAssign/AnnAssign/For/with) binding `name`."""
    out = []
    for n in walk_no_nested(fnode):
        if isinstance(n, ast.Assign):
            for t in n.targets:
                for x in ast.walk(t):
                    if isinstance(x, ast.Name) and x.id == name:
                        out.append(n)
        elif isinstance(n, (ast.AugAssign, ast.AnnAssign)):
            if isinstance(n.target, ast.Name) and n.target.id == name:
                out.append(n)
        elif isinstance(n, ast.For):
            for x in ast.walk(n.target):
                if isinstance(x, ast.Name) and x.id == name:
                    out.append(n)
    return out


def _exclusive(a, b):
    """Statements a and b lie in different branches of one if statement
    (neither can run when the other does, within one pass)."""
    chain_a = [a] + list(_ancestors(a))
    chain_b = set(map(id, [b] + list(_ancestors(b))))
    for i, x in enumerate(chain_a):
        if id(x) in chain_b and isinstance(x, ast.If):
            # x is the lowest common ancestor if the child of x on a's side
            # is not an ancestor of b
            child_a = chain_a[i - 1] if i else None
            if child_a is None:
                return False
            in_body = any(child_a is s for s in x.body)
            in_else = any(child_a is s for s in x.orelse)
            chain_b_nodes = [b] + list(_ancestors(b))
            child_b = None
            for j, y in enumerate(chain_b_nodes):
                if y is x:
                    child_b = chain_b_nodes[j - 1] if j else None
            if child_b is None:
                return False
            b_body = any(child_b is s for s in x.body)
            b_else = any(child_b is s for s in x.orelse)
            return (in_body and b_else) or (in_else and b_body)
        if id(x) in chain_b:
            return False
    return False


def _ancestors(n):
    p = parent(n)
    while p is not None:
        yield p
        p = parent(p)


def alternatives(fnode, name, at=None):
    """If `name` takes its values only from plain assignments
    (possibly `a if c else b`), -> [(value expr, [(test, polarity)...])];
    None when it is bound in another way.  With `at` (a node using the
    name) bindings in a branch that excludes the use are left out."""
    out = []
    for st in stores_of(fnode, name):
        if at is not None and _exclusive(st, at):
            continue
        if not (isinstance(st, ast.Assign) and all(
                isinstance(t, ast.Name) for t in st.targets)):
            return None
        conds = path_conds(st)
        todo = [(st.value, conds)]
        while todo:
            v, c = todo.pop()
            if isinstance(v, ast.IfExp):
                todo.append((v.body, [(v.test, True)] + c))
                todo.append((v.orelse, [(v.test, False)] + c))
            else:
                out.append((v, c))
    return out


def sign_variables(fnode):
    """Names that only ever hold -1 or 1, chosen by a `< 0` / `>= 0` test.
    -> {name: (tested expression text, True if -1 goes with negative)}"""
    names = set()
    for n in walk_no_nested(fnode):
        if isinstance(n, ast.Assign) and len(n.targets) == 1 and isinstance(
                n.targets[0], ast.Name):
            names.add(n.targets[0].id)
    out = {}
    for name in sorted(names):
        alts = alternatives(fnode, name)
        if not alts or len(alts) < 2:
            continue
        vals = {}
        ok = True
        for v, conds in alts:
            t = U(v).replace("(", "").replace(")", "")
            if t not in ("-1", "1", "+1"):
                ok = False
                break
            vals.setdefault(-1 if t == "-1" else 1, []).append(conds)
        if not ok or set(vals) != {-1, 1}:
            continue
        # polarity: the condition distinguishing the -1 value
        subj = None
        neg_with_negative = None
        for conds in vals[-1]:
            for test, pol in conds:
                r = _sign_test(test)
                if r is None:
                    continue
                expr, means_negative = r
                subj = expr
                neg_with_negative = (means_negative == pol)
                break
            if subj is not None:
                break
        if subj is None:
            # `sign = 1` first, then `if x < 0: sign = -1`
            continue
        out[name] = (subj, neg_with_negative)
    return out


def _sign_test(test):
    """`x < 0` -> (x, True); `x >= 0` -> (x, False); `0 > x`...; else None."""
    if not (isinstance(test, ast.Compare) and len(test.ops) == 1):
        return None
    l, op, r = test.left, test.ops[0], test.comparators[0]
    zero_r = isinstance(r, ast.Constant) and r.value == 0 and \
        not isinstance(r.value, bool)
    zero_l = isinstance(l, ast.Constant) and l.value == 0 and \
        not isinstance(l.value, bool)
    if zero_r:
        if isinstance(op, ast.Lt):
            return U(l), True
        if isinstance(op, ast.GtE):
            return U(l), False
    if zero_l:
        if isinstance(op, ast.Gt):
            return U(r), True
        if isinstance(op, ast.LtE):
            return U(r), False
    return None


_REL = {ast.Lt: "<", ast.Gt: ">", ast.LtE: "<=", ast.GtE: ">=",
        ast.Eq: "==", ast.NotEq: "!="}
_NOT = {"<": ">=", ">": "<=", "<=": ">", ">=": "<", "==": "!=", "!=": "=="}
_FLIP = {"<": ">", ">": "<", "<=": ">=", ">=": "<=", "==": "==", "!=": "!="}


def zero_relation(test, pol=True, ints=()):
    """`x < 0` (polarity applied) -> (text of x, "<"); None if the test is
    not a comparison of something with the constant 0.  For a subject named
    in `ints` (known to hold an integer) `x >= 1` is `x > 0`, `x <= -1` is
    `x < 0`, `x < 1` is `x <= 0` and `x > -1` is `x >= 0`."""
    if not (isinstance(test, ast.Compare) and len(test.ops) == 1
            and type(test.ops[0]) in _REL):
        return None
    l, r = test.left, test.comparators[0]
    rel = _REL[type(test.ops[0])]

    def zero(e):
        return isinstance(e, ast.Constant) and e.value == 0 and \
            not isinstance(e.value, bool)

    def unit(e):
        t = U(e).replace("(", "").replace(")", "")
        return {"1": 1, "-1": -1}.get(t)
    if zero(r):
        subj = U(l)
    elif zero(l):
        subj, rel = U(r), _FLIP[rel]
    elif ints and (unit(r) is not None and U(l) in ints or
                   unit(l) is not None and U(r) in ints):
        if unit(r) is not None and U(l) in ints:
            subj, k = U(l), unit(r)
        else:
            subj, k, rel = U(r), unit(l), _FLIP[rel]
        rel = {(">=", 1): ">", ("<", 1): "<=", ("<=", -1): "<",
               (">", -1): ">="}.get((rel, k))
        if rel is None:
            return None
    else:
        return None
    if not pol:
        rel = _NOT[rel]
    return subj, rel


def zero_relations(conds, ints=()):
    out = set()
    for t, pol in conds:
        r = zero_relation(t, pol, ints)
        if r is not None:
            out.add(r)
    return out


def single_def(fnode, name):
    st = stores_of(fnode, name)
    if len(st) == 1 and isinstance(st[0], ast.Assign) and len(
            st[0].targets) == 1 and isinstance(st[0].targets[0], ast.Name):
        return st[0].value
    return None


def prefix_test(fnode, t, char, depth=0):
    """Does expression `t`, when true, mean "<some string> starts with
    `char`"?  -> the text of that string expression, or None."""
    if isinstance(t, ast.Call) and isinstance(t.func, ast.Attribute) and \
            t.func.attr == "startswith" and len(t.args) == 1 and isinstance(
                t.args[0], ast.Constant) and t.args[0].value == char:
        return U(t.func.value)
    if isinstance(t, ast.Compare) and len(t.ops) == 1 and isinstance(
            t.ops[0], ast.Eq) and isinstance(
                t.comparators[0], ast.Constant) and \
            t.comparators[0].value == char and isinstance(
                t.left, ast.Subscript) and U(t.left.slice) in ("0", ":1"):
        return U(t.left.value)
    if isinstance(t, ast.Name) and depth < 3:
        v = single_def(fnode, t.id)
        if v is not None:
            return prefix_test(fnode, v, char, depth + 1)
    return None


def _const_num(e):
    t = U(e).replace("(", "").replace(")", "").replace("+", "")
    return {"-1": -1, "1": 1}.get(t)


def sign_by_prefix(fnode, e, char="-"):
    """Is `e` -1 exactly when a string starts with `char`, and 1 otherwise?
    Accepts a conditional expression, or a name assigned 1 / -1 under such a
    test.  -> text of the tested string, or None."""
    if isinstance(e, ast.IfExp):
        a, b = _const_num(e.body), _const_num(e.orelse)
        if (a, b) == (-1, 1):
            return prefix_test(fnode, e.test, char)
        if (a, b) == (1, -1) and isinstance(e.test, ast.UnaryOp) and \
                isinstance(e.test.op, ast.Not):
            return prefix_test(fnode, e.test.operand, char)
        return None
    if isinstance(e, ast.Name):
        alts = alternatives(fnode, e.id)
        if not alts:
            return None
        subj = None
        seen = set()
        for v, conds in alts:
            k = _const_num(v)
            if k is None:
                return None
            seen.add(k)
            tests = [(prefix_test(fnode, t, char), pol) for t, pol in conds]
            tests = [(s_, pol) for s_, pol in tests if s_ is not None]
            if k == -1:
                pos = [s_ for s_, pol in tests if pol]
                if not pos:
                    return None
                subj = pos[0]
            else:
                if any(pol for s_, pol in tests):
                    return None
        if seen == {-1, 1}:
            return subj
    return None


def consistent(conds):
    seen = {}
    for t, pol in conds:
        k = U(t)
        if seen.setdefault(k, pol) != pol:
            return False
    return True


def value_alternatives(fnode, e, params=()):
    """Alternatives of an argument expression: a conditional expression
    gives both arms, a local name assigned in several places its values.
    -> [(expr, conds)]"""
    if isinstance(e, ast.IfExp):
        return ([(v, [(e.test, True)] + c)
                 for v, c in value_alternatives(fnode, e.body, params)] +
                [(v, [(e.test, False)] + c)
                 for v, c in value_alternatives(fnode, e.orelse, params)])
    if isinstance(e, ast.Name) and e.id not in params:
        alts = alternatives(fnode, e.id)
        if alts and len(alts) > 1:
            return [(v, list(c)) for v, c in alts]
    return [(e, [])]


def call_alternatives(fnode, call, params=()):
    """Keyword arguments of a call with `**mapping`, conditional-expression
    and branch-assigned values resolved.
    -> [({keyword: expr}, conds)] or None when a ** operand is not a
    dictionary literal on every path."""
    base = path_conds(call)
    alts = [({}, [])]
    for k in call.keywords:
        options = []
        if k.arg is None:
            srcs = value_alternatives(fnode, k.value, params)
            if isinstance(k.value, ast.Name) and len(srcs) == 1 and \
                    srcs[0][0] is k.value:
                one = alternatives(fnode, k.value.id)
                if not one:
                    return None
                srcs = [(v, list(c)) for v, c in one]
            for v, c in srcs:
                if not (isinstance(v, ast.Dict) and all(
                        isinstance(x, ast.Constant) for x in v.keys)):
                    return None
                options.append(({x.value: y for x, y in zip(v.keys, v.values)},
                                c))
        else:
            for v, c in value_alternatives(fnode, k.value, params):
                options.append(({k.arg: v}, c))
        new = []
        for kw, c in alts:
            for kw2, c2 in options:
                cc = c + c2
                if consistent(cc + base):
                    d = dict(kw)
                    d.update(kw2)
                    new.append((d, cc))
        alts = new
    return [(kw, c + base) for kw, c in alts]


def expand_values(fnode, e, params=(), depth=0):
    """What an expression can evaluate to, with the conditions selecting
    each value: conditional expressions give both arms, `a or b` gives a
    (when a is true) and b (when it is not), a local name the values of its
    assignments.  -> [(leaf expression, [(test, polarity)])]"""
    if depth > 6:
        return [(e, [])]
    if isinstance(e, ast.IfExp):
        return ([(v, [(e.test, True)] + c) for v, c in expand_values(
            fnode, e.body, params, depth + 1)] +
                [(v, [(e.test, False)] + c) for v, c in expand_values(
                    fnode, e.orelse, params, depth + 1)])
    if isinstance(e, ast.BoolOp) and isinstance(e.op, ast.Or):
        out = []
        before = []
        for i, v in enumerate(e.values):
            last = i == len(e.values) - 1
            for leaf, c in expand_values(fnode, v, params, depth + 1):
                out.append((leaf, before + ([] if last else [(v, True)])
                            + c))
            before = before + [(v, False)]
        return out
    if isinstance(e, ast.Name) and e.id not in params:
        alts = alternatives(fnode, e.id, at=e if parent(e) is not None
                            else None)
        if alts:
            out = []
            own = {a.arg for a in getattr(fnode, "args", None).args +
                   fnode.args.kwonlyargs} if hasattr(fnode, "args") else ()
            if e.id in own:
                # a parameter that is re-bound on some paths keeps the
                # caller's value on the others
                out.append((e, []))
            for v, c in alts:
                for leaf, c2 in expand_values(fnode, v, params, depth + 1):
                    out.append((leaf, c2 + list(c)))
            return out
    return [(e, [])]


def is_absent_test(conds, name):
    """Do the conditions say that the variable `name` is empty / None?"""
    for t, pol in conds:
        tt = U(t)
        if (tt == name and not pol) or (tt == "not " + name and pol) or (
                tt == name + " is None" and pol) or (
                    tt == name + " is not None" and not pol):
            return True
    return False
